"""SNMPv3 session rules: credentials stamped on requests (C03.cred / C13.stamp), adoption of engine
parameters (C13.adopt), key localisation (C13.keys), discovery probe (C13.probe), acceptance of
unauthenticated replies (C10)."""
from .. import cells, cfg, flow
from ..facts import callee_path
from .c04 import SOCKETS, _call_guard, _eq_guard, some_blocks

V3 = "socket::v3::SnmpV3ClientSocket"
V3T = "<socket::v3::SnmpV3ClientSocket as socket::snmpsocket::SnmpSocket>"
fp = flow.field_path


def _agg_fields(body, prov, adt):
    out = []
    for (bi, st, fields, vname) in flow.aggregate_inits(body, adt):
        out.append((st, {k: prov.operand(v) for k, v in fields.items()}))
    return out


def _is_call(t, suffix, argpath=None):
    if t[0] != "call" or not (t[1] or "").endswith(suffix):
        return False
    if argpath is not None:
        return bool(t[2]) and fp(t[2][0]) == argpath
    return True


def _through_cast(t):
    while t[0] == "cast":
        t = t[1]
    return t


def cred(ctx, rep, rule):
    """Each field of the message built by push_pdu derives from the same-named session field."""
    facts = ctx.facts
    # v1 / v2c
    for ver in ("v1", "v2c"):
        cls, tr = SOCKETS[ver]
        body = facts.need(tr + "::push_pdu")
        rep.note_analysed("functions", [body.path])
        prov = flow.Prov(body)
        msg_adt = "snmp::msg::%s::Snmp%sMessage" % (ver, "V1" if ver == "v1" else "V2c")
        aggs = _agg_fields(body, prov, msg_adt)
        if not aggs:
            rep.missing(rule, "%s::push_pdu: %s {..}" % (cls, msg_adt))
            continue
        for st, f in aggs:
            rep.check(rule, "%s::push_pdu|community" % cls, fp(f["community"]) == ("arg1", "community"), "self.community",
                      "community field is %s" % flow.fmt(f["community"]), body.loc(st["line"]), obligation=True)
            rep.check(rule, "%s::push_pdu|pdu" % cls, f["pdu"] == ("arg", 2), "the caller's PDU", "pdu field is %s" % flow.fmt(f["pdu"]),
                      body.loc(st["line"]), obligation=True)
        pb = [b for b in body.calls() if (callee_path(b.term) or "").endswith("::push_ber")]
        rep.check(rule, "%s::push_pdu|serialised-into-buf" % cls, len(pb) == 1 and prov.operand(pb[0].term["args"][1]) == ("arg", 3),
                  "msg.push_ber(buf)", "push_ber target is not the caller's buffer", body.loc())
    # v3
    body = facts.need(V3T + "::push_pdu")
    rep.note_analysed("functions", [body.path])
    prov = flow.Prov(body)
    key = V3 + "::push_pdu"
    usm = _agg_fields(body, prov, "snmp::msg::v3::usm::UsmParameters")
    msg = _agg_fields(body, prov, "snmp::msg::v3::msg::SnmpV3Message")
    sc = _agg_fields(body, prov, "snmp::msg::v3::scoped::ScopedPdu")
    if not (usm and msg and sc):
        rep.missing(rule, key + ": UsmParameters / SnmpV3Message / ScopedPdu construction")
        return

    def chk(name, term, ok, want):
        rep.check(rule, "%s|%s" % (key, name), ok, want, "%s is built from %s, expected %s" % (name, flow.fmt(term), want), body.loc(),
                  obligation=True)
    for st, f in usm:
        chk("usm.engine_id", f["engine_id"], fp(f["engine_id"]) == ("arg1", "engine_id"), "self.engine_id")
        chk("usm.engine_boots", f["engine_boots"], fp(f["engine_boots"]) == ("arg1", "engine_boots"), "self.engine_boots")
        chk("usm.engine_time", f["engine_time"], fp(f["engine_time"]) == ("arg1", "engine_time"), "self.engine_time")
        chk("usm.user_name", f["user_name"], fp(f["user_name"]) == ("arg1", "user_name"), "self.user_name")
        chk("usm.auth_params", f["auth_params"], _is_call(f["auth_params"], "::placeholder", ("arg1", "auth_key")), "self.auth_key.placeholder()")
        pp = f["privacy_params"]
        okpp = pp[0] == "phi" or flow.mentions(pp, lambda s: _is_call(s, "::encrypt"))
        chk("usm.privacy_params", pp, okpp and flow.mentions(pp, lambda s: _is_call(s, "::encrypt") and s[2] and fp(s[2][0]) == ("arg1", "priv_key")),
            "salt returned by self.priv_key.encrypt(..) (empty without privacy)")
    for st, f in msg:
        chk("msg_id", f["msg_id"], _is_call(f["msg_id"], "RequestId::get_next", ("arg1", "msg_id")), "self.msg_id.get_next()")
        chk("flag_auth", f["flag_auth"], _is_call(f["flag_auth"], "::has_auth", ("arg1", "auth_key")), "self.auth_key.has_auth()")
        chk("flag_priv", f["flag_priv"], _is_call(f["flag_priv"], "::has_priv", ("arg1", "priv_key")), "self.priv_key.has_priv()")
        fr = f["flag_report"]
        # decided per cell: (variant of the PDU, vars.is_empty()) -> value of the flag; shape-independent (match / matches! / if let)
        pv = {name: dno for dno, name in (flow.enum_variants(facts, "snmp::pdu::SnmpPdu") or {}).items()}
        fr_op = st["rv"]["ops"][st["rv"]["fields"].index("flag_report")]

        def flag_under(variant, empty):
            def ev(t):
                if t == ("discr", ("arg", 2)):
                    return pv.get(variant)
                if _is_call(t, "::is_empty") and t[2] and flow.mentions(t[2][0], lambda s_: s_[0] == "f" and s_[2] == "vars"):
                    return 1 if empty else 0
                return None
            blocks, _ = cells.feasible(body, prov, ev)
            return cells.eval_term(flow.Prov(body, only_blocks=blocks).operand(fr_op), ev)
        got = {(v, e): flag_under(v, e) for v in pv for e in (True, False)}
        okr = bool(pv) and all(val == (1 if (v == "GetRequest" and e) else 0) for (v, e), val in got.items())
        chk("flag_report", fr, okr, "pdu is a GetRequest with no varbinds (discovery probe), false otherwise")
        chk("usm", f["usm"], f["usm"][0] == "agg" and f["usm"][1].endswith("UsmParameters"), "the UsmParameters built above")
    for st, f in sc:
        chk("scoped.engine_id", f["engine_id"], fp(f["engine_id"]) == ("arg1", "engine_id"), "self.engine_id (context engine id)")
        chk("scoped.pdu", f["pdu"], f["pdu"] == ("arg", 2), "the caller's PDU")
    # encrypt arguments: (&scoped_pdu, boots, time) in this order
    enc = [b for b in body.calls() if (callee_path(b.term) or "").endswith("::encrypt")]
    if len(enc) != 1:
        rep.missing(rule, key + ": one call of priv_key.encrypt")
    else:
        a = [prov.operand(x) for x in enc[0].term["args"]]
        chk("encrypt.key", a[0], fp(a[0]) == ("arg1", "priv_key"), "self.priv_key")
        chk("encrypt.pdu", a[1], a[1][0] == "agg" and a[1][1].endswith("ScopedPdu"), "the scoped PDU of this request")
        chk("encrypt.boots", a[2], fp(_through_cast(a[2])) == ("arg1", "engine_boots"), "self.engine_boots")
        chk("encrypt.time", a[3], fp(_through_cast(a[3])) == ("arg1", "engine_time"), "self.engine_time")
    rep.floor(rule, 22)


def priv_choice(ctx, rep, rule):
    """flag_priv, the Encrypted/Plaintext choice and the call of encrypt are governed by the same has_priv()."""
    facts = ctx.facts
    body = facts.need(V3T + "::push_pdu")
    prov = flow.Prov(body)
    key = V3 + "::push_pdu"
    gs = flow.guards(body, prov)
    gp = [g for g in gs if _is_call(g.term, "::has_priv", ("arg1", "priv_key"))]
    enc = [b.idx for b in body.calls() if (callee_path(b.term) or "").endswith("::encrypt")]
    encd = [bi for (bi, st, f, vn) in flow.aggregate_inits(body, "snmp::msg::v3::data::MsgData") if vn == "Encrypted"]
    plain = [bi for (bi, st, f, vn) in flow.aggregate_inits(body, "snmp::msg::v3::data::MsgData") if vn == "Plaintext"]
    if not gp or not enc or not encd or not plain:
        rep.missing(rule, key + ": has_priv guard / encrypt / MsgData::Encrypted / MsgData::Plaintext")
        return
    te = {g.true_edge for g in gp}
    fe = {g.false_edge for g in gp}
    rep.check(rule, key + "|encrypt-iff-priv", cfg.must_pass(body, [0], enc + encd, te), "encrypt and MsgData::Encrypted only with privacy",
              "the payload can be encrypted on a path where has_priv() is false", body.loc(gp[0].line), obligation=True)
    rep.check(rule, key + "|plaintext-iff-nopriv", cfg.must_pass(body, [0], plain, fe), "MsgData::Plaintext only without privacy",
              "the scoped PDU can be sent in clear on a path where has_priv() is true", body.loc(gp[0].line), obligation=True)
    # Encrypted carries encrypt()'s output
    for (bi, st, f, vn) in flow.aggregate_inits(body, "snmp::msg::v3::data::MsgData"):
        t = prov.operand(list(f.values())[0])
        if vn == "Encrypted":
            rep.check(rule, key + "|encrypted-is-cipher-output", flow.mentions(t, lambda s: _is_call(s, "::encrypt")),
                      "MsgData::Encrypted(encrypt(..).0)", "MsgData::Encrypted carries %s" % flow.fmt(t), body.loc(st["line"]), obligation=True)
            rep.check(rule, key + "|no-plaintext-in-encrypted", not (t[0] == "agg" and t[1].endswith("ScopedPdu")), "", "plaintext in Encrypted", body.loc(st["line"]))
    # the message's data field is the chosen MsgData
    for st, f in _agg_fields(body, prov, "snmp::msg::v3::msg::SnmpV3Message"):
        d = f["data"]
        rep.check(rule, key + "|data-field", flow.mentions(d, lambda s: s[0] == "agg" and s[1].endswith("MsgData")), "data = chosen MsgData",
                  "data field is %s" % flow.fmt(d), body.loc(st["line"]))


def v3_accept_edges(body, prov):
    gs = flow.guards(body, prov)
    edges = {}
    g = _eq_guard(gs, ("arg1", "user_name"), ("arg2", "usm", "user_name"))
    edges["user-name"] = [x[1] for x in g]
    gm = _call_guard(gs, "RequestId::check", lambda a: len(a) == 2 and fp(a[0]) == ("arg1", "msg_id") and fp(a[1]) == ("arg2", "msg_id"))
    edges["msg-id"] = [x.true_edge for x in gm]
    cg = _call_guard(gs, "SnmpPdu::<'_>::check", lambda a: len(a) == 2 and fp(a[1]) == ("arg1", "request_id"))
    edges["request-id"] = [x.true_edge for x in cg]
    return edges


def adopt(ctx, rep, rule):
    facts = ctx.facts
    allowed = {"engine_boots": (V3T + "::unwrap_pdu",), "engine_time": (V3T + "::unwrap_pdu",), "engine_id": (V3T + "::unwrap_pdu",)}
    seen = {k: 0 for k in allowed}
    for body in facts.body_list:
        for fld in allowed:
            for (bi, kind, st, line) in flow.field_writes(body, V3, fld):
                seen[fld] += 1
                rep.check(rule, "%s.%s|written in %s" % (V3, fld, body.path), body.path in allowed[fld], "",
                          "session field %s is modified in %s" % (fld, body.path), body.loc(line), obligation=True)
    for fld, n in seen.items():
        if n == 0:
            rep.violation(rule, "%s.%s|adopted" % (V3, fld), "unwrap_pdu never updates self.%s from the agent's message" % fld, obligation=True)
    # constructor: boots/time start at 0, engine id is the caller's
    nb = facts.need(V3 + "::new")
    pn = flow.Prov(nb)
    for st, f in _agg_fields(nb, pn, V3):
        rep.check(rule, V3 + "::new|engine_boots", f["engine_boots"] == ("const", 0), "0", "starts at %s" % flow.fmt(f["engine_boots"]), nb.loc(st["line"]))
        rep.check(rule, V3 + "::new|engine_time", f["engine_time"] == ("const", 0), "0", "starts at %s" % flow.fmt(f["engine_time"]), nb.loc(st["line"]))
        rep.check(rule, V3 + "::new|engine_id", f["engine_id"] == ("arg", 2), "caller's engine id", "engine_id is %s" % flow.fmt(f["engine_id"]), nb.loc(st["line"]),
                  obligation=True)
        rep.check(rule, V3 + "::new|user_name", f["user_name"] == ("arg", 3), "caller's user", "user_name is %s" % flow.fmt(f["user_name"]), nb.loc(st["line"]))
    body = facts.need(V3T + "::unwrap_pdu")
    rep.note_analysed("functions", [body.path])
    prov = flow.Prov(body)
    key = V3 + "::unwrap_pdu"
    acc = v3_accept_edges(body, prov)
    goals = some_blocks(body)
    for fld, src in (("engine_boots", ("arg2", "usm", "engine_boots")), ("engine_time", ("arg2", "usm", "engine_time"))):
        ws = [(bi, kind, st, line) for (bi, kind, st, line) in flow.field_writes(body, V3, fld) if kind == "assign"]
        for bi, kind, st, line in ws:
            t = prov.rvalue(st["rv"])
            rep.check(rule, "%s|%s-source" % (key, fld), fp(t) == src, "self.%s = msg.usm.%s" % (fld, fld),
                      "self.%s is set from %s" % (fld, flow.fmt(t)), body.loc(line), obligation=True)
            for cname, edges in acc.items():
                if edges:
                    rep.check(rule, "%s|%s-only-when-%s" % (key, fld, cname), cfg.must_pass(body, [0], [bi], set(edges)),
                              "adopted only from an accepted message", "self.%s can be overwritten by a message failing the %s test" % (fld, cname),
                              body.loc(line), obligation=True)
        if ws and goals:
            cut = {(w[0], s) for w in ws for s in body.blocks[w[0]].succs()}
            # a goal block in which the write stands before the Some(..) is itself behind the write
            wblocks = {w[0]: w[2] for w in ws}
            goals_ = []
            for g_ in goals:
                stmts = body.blocks[g_].stmts
                wi = next((i for i, s_ in enumerate(stmts) if s_ is wblocks.get(g_)), None)
                si = next((i for i, s_ in enumerate(stmts) if s_["k"] == "assign" and not s_["place"]["p"] and s_["place"]["l"] == 0 and s_["rv"]["k"] == "agg"), None)
                if not (wi is not None and si is not None and wi < si):
                    goals_.append(g_)
            rep.check(rule, "%s|%s-on-every-accept" % (key, fld), not goals_ or cfg.must_pass(body, [0], goals_, cut),
                      "every accepted message updates self.%s" % fld, "a message can be accepted without updating self.%s" % fld, body.loc(),
                      obligation=True)
    # engine id: adopted once, only while unknown
    ws = [(bi, kind, st, line) for (bi, kind, st, line) in flow.field_writes(body, V3, "engine_id")]
    gs = flow.guards(body, prov)
    gi = [g for g in gs if _is_call(g.term, "::is_empty", ("arg1", "engine_id"))]
    for bi, kind, st, line in ws:
        rep.check(rule, key + "|engine_id-only-when-unknown", bool(gi) and cfg.must_pass(body, [0], [bi], {g.true_edge for g in gi}),
                  "engine id adopted only while empty", "a known engine id can be overwritten", body.loc(line), obligation=True)
        for cname, edges in acc.items():
            if edges:
                rep.check(rule, "%s|engine_id-only-when-%s" % (key, cname), cfg.must_pass(body, [0], [bi], set(edges)), "",
                          "engine id can be adopted from a message failing the %s test" % cname, body.loc(line), obligation=True)
    ext = [b for b in body.calls() if (callee_path(b.term) or "").endswith("::extend_from_slice")]
    for b in ext:
        a = [prov.operand(x) for x in b.term["args"]]
        if fp(a[0]) == ("arg1", "engine_id"):
            rep.check(rule, key + "|engine_id-source", fp(a[1]) == ("arg2", "usm", "engine_id"), "msg.usm.engine_id",
                      "engine id learnt from %s" % flow.fmt(a[1]), body.loc(b.term["line"]), obligation=True)
    if goals and ws and gi:
        # with an empty engine id every accepted message stores one: cut the store edges and the "already known" edge
        cut = {(w[0], s) for w in ws for s in body.blocks[w[0]].succs()} | {g.false_edge for g in gi if g.block > min(w[0] for w in ws) - 50}
        late = [g for g in gi if any(cfg.reachable(body, [g.block]) & {w[0] for w in ws})]
        cut = {(w[0], s) for w in ws for s in body.blocks[w[0]].succs()} | {g.false_edge for g in late}
        rep.check(rule, key + "|engine_id-learnt-on-accept", cfg.must_pass(body, [0], goals, cut),
                  "an accepted message from an unknown engine teaches its id", "a message can be accepted without learning the engine id",
                  body.loc(), obligation=True)


def keys(ctx, rep, rule):
    facts = ctx.facts
    for fn, eng in ((V3 + "::new", ("arg", 2)), (V3 + "::set_keys", ("f", ("arg", 1), "engine_id"))):
        body = facts.need(fn)
        rep.note_analysed("functions", [body.path])
        prov = flow.Prov(body)
        base = 0 if fn.endswith("::new") else 1  # offset of (user, auth_alg, auth_key, priv_alg, priv_key) params
        p_user, p_aalg, p_akey, p_palg, p_pkey = [("arg", i) for i in ((3, 4, 5, 6, 7) if base == 0 else (2, 3, 4, 5, 6))]
        kt = [b for b in body.calls() if (callee_path(b.term) or "").endswith("AuthKey::as_key_type")]
        rep.check(rule, fn + "|two-localisations", len(kt) == 2, "auth key and privacy key are both localised", "%d calls of as_key_type" % len(kt), body.loc())
        roles = {}
        for b in kt:
            a = [prov.operand(x) for x in b.term["args"]]
            role = "auth" if a[1] == p_aalg else ("priv" if a[1] == p_palg else "?")
            roles[role] = (b, a)
            rep.check(rule, "%s|%s-key engine id" % (fn, role), a[3] == eng or fp(a[3]) == fp(eng) and fp(eng) is not None,
                      "localised to the session's engine id", "key is localised with %s instead of the session engine id" % flow.fmt(a[3]),
                      body.loc(b.term["line"]), obligation=True)
            # the digest used is the auth algorithm's in both cases
            rep.check(rule, "%s|%s-key digest" % (fn, role), _is_call(a[0], "AuthKey::new") or flow.mentions(a[0], lambda s: _is_call(s, "AuthKey::new") and s[2] and s[2][0] == p_aalg),
                      "AuthKey::new(auth_alg)", "localised with digest %s" % flow.fmt(a[0]), body.loc(b.term["line"]), obligation=True)
        if "auth" in roles:
            a = roles["auth"][1]
            rep.check(rule, fn + "|auth-key material", a[2] == p_akey, "auth_key", "auth key material is %s" % flow.fmt(a[2]), body.loc(), obligation=True)
        else:
            rep.violation(rule, fn + "|auth-key material", "no as_key_type(auth_alg, auth_key, ..)", body.loc())
        if "priv" in roles:
            a = roles["priv"][1]
            rep.check(rule, fn + "|priv-key material", a[2] == p_pkey, "priv_key", "priv key material is %s" % flow.fmt(a[2]), body.loc(), obligation=True)
        else:
            rep.violation(rule, fn + "|priv-key material", "no as_key_type(priv_alg, priv_key, ..)", body.loc())
        # the privacy key is localised through a digest object of its own: the session's auth key object is never reused for it
        def _ref_root(op):
            pl = op.get("move") or op.get("copy")
            for _ in range(6):
                if pl is None:
                    return None
                l = pl["l"]
                defs = [st_["rv"] for blk_ in body.live_blocks() for st_ in blk_.stmts if st_["k"] == "assign" and st_["place"]["l"] == l and not st_["place"]["p"]]
                if len(defs) != 1:
                    return l
                rv_ = defs[0]
                if rv_["k"] == "ref":
                    if rv_["place"]["p"] and rv_["place"]["p"] != ["deref"]:
                        return l
                    pl = {"l": rv_["place"]["l"], "p": []}
                    if not rv_["place"]["p"]:
                        return rv_["place"]["l"]
                elif rv_["k"] == "use":
                    pl = rv_["op"].get("move") or rv_["op"].get("copy")
                else:
                    return l
            return None
        def _producing_calls(op):
            """Call blocks whose result reaches this operand through plain moves / copies."""
            pl = op.get("move") or op.get("copy")
            seen_, work, out_ = set(), [pl["l"]] if pl else [], []
            while work:
                l = work.pop()
                if l in seen_ or len(seen_) > 12:
                    continue
                seen_.add(l)
                for blk_ in body.live_blocks():
                    for st_ in blk_.stmts:
                        if st_["k"] == "assign" and st_["place"]["l"] == l and not st_["place"]["p"] and st_["rv"]["k"] in ("use", "cast"):
                            q = st_["rv"]["op"].get("move") or st_["rv"]["op"].get("copy")
                            if q is not None and not [e for e in q["p"] if e != "deref"]:
                                work.append(q["l"])
                        elif st_["k"] == "assign" and st_["place"]["l"] == l and not st_["place"]["p"] and st_["rv"]["k"] == "ref" \
                                and st_["rv"]["place"]["p"] == ["deref"]:
                            work.append(st_["rv"]["place"]["l"])
                    t_ = blk_.term
                    if t_ and t_["k"] == "call" and t_["dest"]["l"] == l and not t_["dest"]["p"]:
                        out_.append(blk_)
            return out_
        if "auth" in roles and "priv" in roles:
            ra, rp_ = _ref_root(roles["auth"][0].term["args"][0]), _ref_root(roles["priv"][0].term["args"][0])
            rep.check(rule, fn + "|separate digest objects", ra is not None and rp_ is not None and ra != rp_, "auth and privacy keys use their own AuthKey objects",
                      "the privacy key is derived on the very AuthKey object that becomes the session's authentication key: messages are then signed with the "
                      "privacy key", body.loc(roles["priv"][0].term["line"]), obligation=True)
        # whenever a privacy algorithm is configured its key is derived and installed: no other condition (engine id known,
        # key non-empty ...) lets the constructor / set_keys succeed with the cipher's default all-zero key
        hp = [b for b in body.calls() if (callee_path(b.term) or "").endswith("::has_priv")]
        if hp and "priv" in roles:
            def evp(t):
                if t[0] == "call" and (t[1] or "").endswith("::has_priv"):
                    return 1
                return None
            blocks_, _ = cells.feasible(body, prov, evp)
            inst_ = [b for b in body.calls() if (callee_path(b.term) or "").endswith("SnmpPriv>::as_localized")]
            oks2 = [b_ for b_ in flow.blocks_assigning_return(body, lambda rv: rv["k"] == "agg" and rv.get("vname") == "Ok") if b_ in blocks_]
            cut2 = {(b.idx, s_) for b in inst_ for s_ in b.succs()}
            pth = (sorted(cells.variant_reach(body, cut=frozenset(cut2), within=blocks_) & set(oks2)) or None) if oks2 else None
            rep.check(rule, fn + "|privacy key always localised", pth is None, "has_priv() implies as_localized(..) before Ok",
                      "with a privacy algorithm configured %s can succeed without deriving the privacy key (blocks %s): the cipher keeps its all-zero "
                      "default key" % (fn.split("::")[-1], pth), body.loc(), obligation=True)
        loc = [b for b in body.calls() if (callee_path(b.term) or "").endswith("SnmpPriv>::as_localized")]
        for b in loc:
            a = [prov.operand(x) for x in b.term["args"]]
            ok = _is_call(a[0], "PrivKey::new") or flow.mentions(a[0], lambda s: _is_call(s, "PrivKey::new") and s[2] and s[2][0] == p_palg)
            rep.check(rule, fn + "|cipher", ok, "PrivKey::new(priv_alg)", "cipher object is %s" % flow.fmt(a[0]), body.loc(b.term["line"]), obligation=True)
            rep.check(rule, fn + "|cipher-key", _is_call(a[1], "::get_key") and flow.mentions(a[1], lambda s: _is_call(s, "AuthKey::new")),
                      "pk.as_localized(pk_auth.get_key())", "cipher key is %s" % flow.fmt(a[1]), body.loc(b.term["line"]), obligation=True)
            # ... and it is read from the object that localised the privacy secret, never from the one that holds the
            # authentication key (equal secrets do not make equal keys: the key-type bits of the two algorithms differ)
            if "auth" in roles and "priv" in roles:
                ra2, rp2 = _ref_root(roles["auth"][0].term["args"][0]), _ref_root(roles["priv"][0].term["args"][0])
                for g in _producing_calls(b.term["args"][1]):
                    if not (callee_path(g.term) or "").endswith("::get_key") or not g.term["args"]:
                        continue
                    rr = _ref_root(g.term["args"][0])
                    if rr is not None and ra2 is not None and rr == ra2 and rr != rp2:
                        rep.violation(rule, fn + "|cipher-key source", "the cipher key is read from the authentication key object (localised from auth_key with the "
                                      "auth key type), not from the privacy secret's own localisation", body.loc(g.term["line"]), obligation=True)
                    elif rr is not None and rr == rp2:
                        rep.ok(rule, fn + "|cipher-key source", "get_key() of the object that localised priv_key", body.loc(g.term["line"]))
        if not loc:
            rep.missing(rule, fn + ": pk.as_localized(..)")
        if fn.endswith("::set_keys"):
            for fld, want in (("auth_key", "AuthKey::new"), ("priv_key", "PrivKey::new")):
                ws = [(bi, kind, st, line) for (bi, kind, st, line) in flow.field_writes(body, V3, fld) if kind == "assign"]
                rep.check(rule, fn + "|installs " + fld, bool(ws) and all(flow.mentions(prov.rvalue(w[2]["rv"]), lambda s: _is_call(s, want)) for w in ws),
                          "self.%s replaced by the new key" % fld, "self.%s is not replaced by the newly derived key" % fld, body.loc(), obligation=True)
            oks_ = flow.blocks_assigning_return(body, lambda rv: rv["k"] == "agg" and rv.get("vname") == "Ok")
            for fld in ("auth_key", "priv_key"):
                ws = [(bi, kind, st, line) for (bi, kind, st, line) in flow.field_writes(body, V3, fld) if kind == "assign"]
                if ws and oks_:
                    cut = {(w[0], s_) for w in ws for s_ in body.blocks[w[0]].succs()}
                    # an Ok built in the very block that performs the store (after it) is fine
                    def _after(g_):
                        blk_ = body.blocks[g_]
                        wi = [i_ for i_, st_ in enumerate(blk_.stmts) if any(st_ is w[2] for w in ws)]
                        oi = [i_ for i_, st_ in enumerate(blk_.stmts) if st_["k"] == "assign" and st_["rv"]["k"] == "agg" and st_["rv"].get("vname") == "Ok"]
                        return bool(wi) and bool(oi) and min(wi) < max(oi)
                    goals_ = [g_ for g_ in oks_ if not _after(g_)]
                    rep.check(rule, fn + "|every Ok installs " + fld, not goals_ or cfg.must_pass(body, [0], goals_, cut), "no successful return without the new key",
                              "set_keys can return Ok without replacing self.%s (an early return keeps the previous key: later messages are signed or "
                              "encrypted with a stale key)" % fld, body.loc(), obligation=True)
            # the session keeps its previous keys when set_keys fails: nothing fallible follows the two stores
            errs_ = {x.idx for x in body.calls() if (callee_path(x.term) or "").endswith("from_residual")} | \
                set(flow.blocks_assigning_return(body, lambda rv: rv["k"] == "agg" and rv.get("vname") == "Err"))
            for fld in ("auth_key", "priv_key"):
                for (bi, kind, st, line) in flow.field_writes(body, V3, fld):
                    after = cells.variant_reach(body, starts=body.blocks[bi].succs()) if kind in ("assign", "borrow_mut") else set()
                    rep.check(rule, "%s|%s store is final" % (fn, fld), not (after & errs_), "no error exit after the key is replaced",
                              "self.%s is %s before the last fallible step of set_keys: when that step fails the session is left with a half-built "
                              "(default, all-zero) key" % (fld, "borrowed mutably" if kind == "borrow_mut" else "overwritten"), body.loc(line), obligation=True)
            ws = [(bi, kind, st, line) for (bi, kind, st, line) in flow.field_writes(body, V3, "user_name") if kind == "assign"]
            rep.check(rule, fn + "|installs user_name", bool(ws) and all(prov.rvalue(w[2]["rv"]) == p_user for w in ws), "self.user_name = user_name",
                      "user name is not replaced", body.loc(), obligation=True)


def probe(ctx, rep, rule):
    facts = ctx.facts
    bs = [b for b in facts.body_list if b.path.startswith("<snmp::op::refresh::OpRefresh as snmp::op::PyOp") and b.path.endswith("::from_python")]
    if not bs:
        rep.missing(rule, "OpRefresh::from_python")
        return
    body = bs[0]
    prov = flow.Prov(body)
    for (bi, st, f, vn) in flow.aggregate_inits(body, "snmp::pdu::SnmpPdu"):
        rep.check(rule, "OpRefresh::from_python|pdu-type", vn == "GetRequest", "GetRequest", "probe PDU is %s" % vn, body.loc(st["line"]), obligation=True)
    n = 0
    for (bi, st, f, vn) in flow.aggregate_inits(body, "snmp::get::SnmpGet"):
        n += 1
        v = prov.operand(f["vars"])
        rep.check(rule, "OpRefresh::from_python|no-varbinds", _is_call(v, "Vec::<T>::new") or _is_call(v, "::default"), "empty varbind list",
                  "probe carries %s" % flow.fmt(v), body.loc(st["line"]), obligation=True)
        rep.check(rule, "OpRefresh::from_python|request-id", prov.operand(f["request_id"]) == ("arg", 2), "fresh request id", "", body.loc(st["line"]))
    if n == 0:
        rep.missing(rule, "OpRefresh::from_python: SnmpGet{..}")


# ----------------------------------------------------------------------------- C10
def c10(ctx, rep, rule_prefix):
    facts = ctx.facts
    body = facts.need(V3T + "::unwrap_pdu")
    rep.note_analysed("functions", [body.path])
    prov = flow.Prov(body)
    gs = flow.guards(body, prov)
    goals = some_blocks(body)
    key = V3 + "::unwrap_pdu"
    # every guard, also those of the generic receive loop
    rb = facts.need("socket::snmpsocket::SnmpSocket::_recv_inner")
    gall = [(body, g) for g in gs] + [(rb, g) for g in flow.guards(rb)]

    def mentions_field(t, path):
        return flow.mentions(t, lambda s: fp(s) == path)

    mac = [(b, g) for b, g in gall if mentions_field(g.term, ("arg2", "usm", "auth_params")) or
           flow.mentions(g.term, lambda s: s[0] == "call" and (s[1] or "").split("::")[-1] in ("verify", "check_signature", "authenticate", "verify_mac"))]
    if not mac:
        rep.violation(rule_prefix + ".mac", key + "|mac-verified",
                      "no comparison of msg.usm.auth_params with a digest computed under self.auth_key guards the delivery of a PDU: "
                      "a reply with a wrong, zero or missing MAC is accepted by a session that holds an auth key", body.loc(), obligation=True)
    else:
        ok = all(cfg.must_pass(b, [0], some_blocks(b) or goals, {g.true_edge, g.false_edge} - set()) for b, g in mac)
        rep.check(rule_prefix + ".mac", key + "|mac-verified", ok, "MAC test guards delivery", "delivery possible without the MAC test", body.loc(), obligation=True)
    fl = [(b, g) for b, g in gall if mentions_field(g.term, ("arg2", "flag_auth"))]
    if not fl:
        rep.violation(rule_prefix + ".flag", key + "|auth-flag-required",
                      "msg.flag_auth is never tested: a reply flagged noAuth is accepted by a session that holds an auth key", body.loc(), obligation=True)
    else:
        rep.ok(rule_prefix + ".flag", key + "|auth-flag-required", "flag_auth is tested", body.loc(fl[0][1].line))
    pr = [(b, g) for b, g in gall if flow.mentions(g.term, lambda s: _is_call(s, "::has_priv")) or mentions_field(g.term, ("arg2", "flag_priv"))]
    if not pr:
        rep.violation(rule_prefix + ".priv", key + "|plaintext-refused-with-privacy",
                      "a MsgData::Plaintext scoped PDU is accepted regardless of the configured privacy: neither has_priv() nor msg.flag_priv "
                      "is tested before delivery", body.loc(), obligation=True)
    else:
        rep.ok(rule_prefix + ".priv", key + "|plaintext-refused-with-privacy", "privacy level is tested", body.loc(pr[0][1].line))
    # a failed decrypt never delivers
    fe = flow.failure_edges(body, prov, lambda t: _is_call(t, "::decrypt"))
    if not fe:
        rep.missing(rule_prefix + ".dec", key + ": match on priv_key.decrypt(..)")
    for b, term, err in fe:
        if not err:
            rep.missing(rule_prefix + ".dec", key + ": failure arm of the match on priv_key.decrypt(..)")
            continue
        r = cells.feasible_from(body, err)
        rep.check(rule_prefix + ".dec", key + "|failed-decrypt-dropped", not (r & set(goals)), "Err(_) => return None",
                  "a message whose payload fails to decrypt can still be delivered", body.loc(b.term["line"]), obligation=True)
        a = term[2]
        rep.check(rule_prefix + ".dec", key + "|decrypt-args", len(a) == 3 and fp(a[0]) == ("arg1", "priv_key") and fp(a[2]) == ("arg2", "usm") and
                  flow.mentions(a[1], lambda s: fp(s) == ("arg2", "data")), "decrypt(msg.data, &msg.usm) under self.priv_key",
                  "decrypt called with %s" % [flow.fmt(x) for x in a], body.loc(b.term["line"]), obligation=True)
