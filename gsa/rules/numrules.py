"""Rules that report the `num` engine's obligations per property scope (rule kinds N and K), the audited
sites with their structural validators, and the C01 side rules (todo!() variants, buffer pool)."""
from .. import callgraph, cells, cfg, flow, numrun
from ..facts import callee_path

# ---------------------------------------------------------------------------- audited sites
# (body path, key prefix, reason, validator).  An audited site is not counted as discharged; it is listed
# in the evidence.  A validator, when given, re-checks structurally the argument that justifies it.
AUDITED = [
    ("<socket::v3::SnmpV3ClientSocket as socket::snmpsocket::SnmpSocket>::push_pdu", "requires[a1.bookmark >= a1.pos]",
     "C09.inb: the bookmark is set by UsmParameters::push_ber right after the 14 octets of the auth parameters were pushed "
     "(pos + 2 = first MAC octet) and pos only decreases afterwards; relational across the whole serialisation", "bookmark"),
    ("<auth::AuthKey as auth::SnmpAuth>::sign", "requires[a3 + SS <= len(a2)]",
     "C09.inb: forwarded from push_pdu (see above): offset + 12 <= message length", "bookmark"),
    ("<auth::AuthKey as auth::SnmpAuth>::as_localized", "requires[len(a2) == KS]",
     "enum_dispatch forwarding arm: AuthKey::as_key_type compares key.len() with self.get_key_size() of the same variant first", "keysize"),
    ("auth::AuthKey::as_key_type", "requires[len(a2) >= 1]",
     "as_password is reached only past the non-empty test of the password when the validity of the key is computed in one match and the "
     "installer chosen in another (decided per key-type cell on the CFG by the validator; `num` joins the arms in between)", "keysize"),
    ("auth::AuthKey::as_key_type", "requires[len(a2) == KS]",
     "as_master / as_localized are reached only past key.len() == get_key_size() (same validator)", "keysize"),
    ("<auth::AuthKey as auth::SnmpAuth>::localize", "requires[len(a4) == KS]",
     "enum_dispatch forwarding arm: out is [0; KS] in as_master / vec![0; get_key_size()] in util", "keysize"),
    ("<auth::AuthKey as auth::SnmpAuth>::password_to_master", "requires[len(a3) == KS]",
     "enum_dispatch forwarding arm: out is [0; KS] in as_password / vec![0; get_key_size()] in util", "keysize"),
    ("ber::objectid::<impl std::convert::TryFrom<&ber::objectid::SnmpOid<'_>> for std::string::String>::try_from", "overflow:Mul|Mul(core::slice::<impl [T]>::len(arg1.0), const(5))",
     "capacity hint len*5: OID octets come from a <= 4080-octet datagram or from try_normalize (<= 8160), never near usize::MAX/5", None),
    ("<&snmp::value::SnmpValue<'_> as pyo3::IntoPyObject<'py>>::into_pyobject", "panic|",
     "todo!() arms for Null / noSuch* / endOfMibView: unreachable because every caller filters these variants first (rule C01.todo)", "todo"),
    ("buf::pool::BufferPool::acquire", "unwrap|std::result::Result::<T, E>::unwrap(std::sync::Mutex::<T>::lock(",
     "Mutex poisoning needs a panic inside a critical section; the two critical sections contain no panic site (rule C01.pool)", "pool"),
    ("<buf::pool::BufferHandle as std::ops::Drop>::drop", "unwrap|std::result::Result::<T, E>::unwrap(std::sync::Mutex::<T>::lock(",
     "Mutex poisoning needs a panic inside a critical section; the two critical sections contain no panic site (rule C01.pool)", "pool"),
    ("<buf::pool::BufferHandle as std::convert::AsMut<buf::buffer::Buffer>>::as_mut", "unwrap|std::option::Option::<T>::unwrap(arg1.buf)",
     "BufferHandle.buf is Some from acquire() until Drop::drop takes it (rule C01.pool)", "pool"),
]


def audited_match(path, key):
    for (p, prefix, reason, validator) in AUDITED:
        if p == path and key.startswith(prefix):
            return reason, validator
    return None, None


# ---------------------------------------------------------------------------- scopes
def graph(ctx):
    if "callgraph" not in ctx.cache:
        ctx.cache["callgraph"] = callgraph.build(ctx.facts)
    return ctx.cache["callgraph"]


def scope_closure(ctx, roots):
    facts = ctx.facts
    rs = []
    for r in roots:
        if r in facts.bodies:
            rs.append(r)
        else:
            rs += [b.path for b in facts.body_list if b.path.endswith(r) or (r.endswith("*") and b.path.startswith(r[:-1]))]
    return callgraph.closure(facts, rs, graph(ctx))


RECV_ROOTS = ["socket::snmpsocket::SnmpSocket::_recv_inner", "socket::snmpsocket::SnmpSocket::recv_reply",
              "<buf::pool::BufferHandle as std::ops::Drop>::drop",
              "error::<impl std::convert::From<error::SnmpError> for pyo3::PyErr>::from"]
SEND_ROOTS = ["socket::snmpsocket::SnmpSocket::_send_inner", "socket::snmpsocket::SnmpSocket::send_request",
              "socket::snmpsocket::SnmpSocket::send_and_recv", "<buf::pool::BufferHandle as std::ops::Drop>::drop"]
KEY_ROOTS = ["socket::v3::SnmpV3ClientSocket::new", "socket::v3::SnmpV3ClientSocket::set_keys", "util::get_master_key", "util::get_localized_key"]
OID_ROOTS = ["<ber::objectid::SnmpOid<'_> as std::convert::TryFrom<&str>>::try_from",
             "ber::objectid::<impl std::convert::TryFrom<&ber::objectid::SnmpOid<'_>> for std::string::String>::try_from",
             "snmp::op::getiter::GetIter::new"]


def report_sites(ctx, rep, rule, scope, classes=None, what=""):
    """One instance per obligation of the bodies in `scope`."""
    facts = ctx.facts
    res = numrun.run(ctx)
    errs = res.errors()
    n = 0
    glue = []
    for p in sorted(scope):
        b = facts.bodies.get(p)
        if b is None:
            continue
        if p in errs:
            rep.violation(rule, "%s|engine" % p, "the analyser failed on this body (%s): failing closed" % errs[p], b.loc())
    for p, o in res.obligations(scope):
        b = facts.bodies[p]
        if classes is not None and o["cls"] not in classes:
            continue
        if o["kind"] in ("probe", "cover"):
            continue   # semantic probes / coverage observations are reported by their own rules (codec.oid_print, codec.tail_cover)
        if numrun.is_glue(b):
            glue.append("%s [%s]" % (p, o["key"][:60]))
            continue
        n += 1
        key = "%s|%s" % (p, o["key"])
        loc = b.loc(o["line"])
        if o["ok"]:
            rep.ok(rule, key, "%s discharged (%s)" % (o["kind"], o["cls"]), loc, obligation=True)
            continue
        reason, validator = audited_match(p, o["key"])
        if reason is not None:
            v_ok, v_msg = run_validator(ctx, validator)
            if v_ok:
                rep.audited(rule, key, reason + ("; validated: " + v_msg if v_msg else ""), loc)
            else:
                rep.violation(rule, key, "audited site whose justification no longer holds: %s" % v_msg, loc, obligation=True)
            continue
        rep.violation(rule, key, "%s site not discharged (%s): %s" % (o["kind"], o["cls"], o["detail"]), loc, obligation=True)
    rep.note_analysed("bodies_in_scope", sorted(scope))
    rep.note_analysed("glue_sites_excluded", glue[:40])
    um = res.unmodelled()
    rep.note_analysed("unclassified_callees", sorted(um))
    for nt in res.notes():
        rep.assume(nt)
    rep.assume("num engine: %.1fs for %d bodies (%s)" % (res.time, len(res.data["bodies"]), "cached" if res.cached else "computed"))
    return n


# ---------------------------------------------------------------------------- validators of audited sites
def run_validator(ctx, name):
    if name is None:
        return True, ""
    key = ("validator", name)
    if key not in ctx.cache:
        ctx.cache[key] = VALIDATORS[name](ctx)
    return ctx.cache[key]


def v_bookmark(ctx):
    """set_bookmark(2) directly follows push_tagged(auth_params) in UsmParameters::push_ber, sign is guarded by has_auth(),
    and nothing resets/skips the buffer between msg.push_ber and get_bookmark."""
    facts = ctx.facts
    ub = facts.body("<snmp::msg::v3::usm::UsmParameters<'_> as ber::BerEncoder>::push_ber")
    pb = facts.body("<socket::v3::SnmpV3ClientSocket as socket::snmpsocket::SnmpSocket>::push_pdu")
    if ub is None or pb is None:
        return False, "anchor functions not found"
    prov = flow.Prov(ub)
    sb = [b for b in ub.calls() if (callee_path(b.term) or "").endswith("Buffer::set_bookmark")]
    if len(sb) != 1:
        return False, "expected one set_bookmark call in UsmParameters::push_ber, found %d" % len(sb)
    d = prov.operand(sb[0].term["args"][1])
    if d != ("const", 2):
        return False, "set_bookmark delta is %s, the header of a 12-octet OCTET STRING is 2 octets" % flow.fmt(d)
    # the call before it (on every path) is push_tagged(.., self.auth_params)
    preds = ub.preds()
    pt = [b for b in ub.calls() if (callee_path(b.term) or "").endswith("Buffer::push_tagged") and
          flow.field_path(prov.operand(b.term["args"][2])) == ("arg1", "auth_params")]
    if not pt:
        return False, "push_tagged(auth_params) not found"
    # between push_tagged(auth_params) success and set_bookmark no other buffer call
    between = cfg.reachable(ub, [pt[0].idx]) & _reaching(ub, sb[0].idx)
    others = [b for b in ub.calls() if b.idx in between and b.idx not in (pt[0].idx, sb[0].idx) and "Buffer::" in (callee_path(b.term) or "")]
    if others:
        return False, "buffer operations between push_tagged(auth_params) and set_bookmark"
    # push_pdu: get_bookmark only under has_auth, no reset/skip after push_ber
    pprov = flow.Prov(pb)
    gs = flow.guards(pb, pprov)
    ga = [g for g in gs if g.term[0] == "call" and (g.term[1] or "").endswith("::has_auth")]
    gb = [b.idx for b in pb.calls() if (callee_path(b.term) or "").endswith("Buffer::get_bookmark")]
    if not ga or not gb or not cfg.must_pass(pb, [0], gb, {g.true_edge for g in ga}):
        return False, "get_bookmark is not guarded by has_auth()"
    bad = [b for b in pb.calls() if (callee_path(b.term) or "").split("::")[-1] in ("reset", "skip")]
    if bad:
        return False, "buffer reset/skip inside push_pdu"
    return True, "set_bookmark(2) follows push_tagged(auth_params); get_bookmark only under has_auth()"


def _reaching(body, target):
    preds = body.preds()
    seen = set()
    work = [target]
    while work:
        b = work.pop()
        if b in seen:
            continue
        seen.add(b)
        work += preds[b]
    return seen


def v_keysize(ctx):
    """AuthKey::as_key_type tests key.len() against self.get_key_size() before as_master / as_localized, and the password
    is non-empty before as_password; out buffers are sized by get_key_size()/KS."""
    facts = ctx.facts
    body = facts.body("auth::AuthKey::as_key_type")
    if body is None:
        return False, "AuthKey::as_key_type not found"
    prov0 = flow.Prov(body)
    # the key type is `alg & KT_TYPE_MASK`: the function is read once per value that a match on it distinguishes, so that a
    # validity flag computed in one match and the installer chosen in a second match on the same value stay correlated
    from .. import cells as _cells

    def is_kt(t):
        return t[0] == "bin" and t[1] == "BitAnd" and ((t[2] == ("arg", 2) and t[3][0] == "const") or (t[3] == ("arg", 2) and t[2][0] == "const"))
    vals = set()
    for blk in body.live_blocks():
        t = blk.term
        if t and t["k"] == "switch" and is_kt(prov0.operand(t["discr"])):
            vals |= {v for v, _ in t["targets"]}
    cellsv = sorted(vals) + [None] if vals else [None]
    seen_meth = set()
    for cv in cellsv:
        def ev(t, cv=cv):
            if cv is not None and is_kt(t):
                return cv
            return None
        if cv is None and vals:
            # the remaining values (the `_` arm): none of the listed ones
            continue
        blocks, _ = _cells.feasible(body, prov0, ev) if cv is not None else ({b.idx for b in body.live_blocks()}, None)
        prov = flow.Prov(body, only_blocks=blocks) if cv is not None else prov0
        gs = [g for g in flow.guards(body, prov) if g.block in blocks]
        for meth in ("as_master", "as_localized"):
            calls = [b.idx for b in body.calls() if (callee_path(b.term) or "").endswith("SnmpAuth>::" + meth) and b.idx in blocks]
            if not calls:
                continue
            seen_meth.add(meth)
            edges = set()
            for g in gs:
                ea = flow.eq_atom(g)
                if not ea:
                    continue
                a, b = ea[0], ea[1]
                for x, y in ((a, b), (b, a)):
                    if x[0] == "call" and (x[1] or "").endswith("[T]>::len") and x[2] and x[2][0] == ("arg", 3) and \
                            y[0] == "call" and (y[1] or "").endswith("::get_key_size") and y[2] and y[2][0] == ("arg", 1):
                        edges.add(ea[2])
            if not edges or _cells.path_within(body, blocks, calls, edges) is not None:
                return False, "%s reachable without key.len() == self.get_key_size()" % meth
        calls = [b.idx for b in body.calls() if (callee_path(b.term) or "").endswith("SnmpAuth>::as_password") and b.idx in blocks]
        if calls:
            seen_meth.add("as_password")
            ge = [g for g in gs if g.term[0] == "call" and (g.term[1] or "").endswith("[T]>::is_empty") and g.term[2] and g.term[2][0] == ("arg", 3)]
            ne = {g.false_edge for g in ge}
            # `valid = !key.is_empty()` stored and tested: the guard's term is then Not(is_empty(key)), normalised by guards()
            if not ne or _cells.path_within(body, blocks, calls, ne) is not None:
                return False, "as_password reachable with an empty password"
    for meth in ("as_master", "as_localized", "as_password"):
        if meth not in seen_meth:
            return False, "call of %s not found" % meth
    return True, "as_key_type guards key sizes"


def v_todo(ctx):
    ok, msg, _ = todo_analysis(ctx)
    return ok, msg


def todo_analysis(ctx):
    """Variants of SnmpValue whose into_pyobject arm diverges, and for each call site the variants that can reach it."""
    from .c07 import VALUE, variant_index, is_value_discr
    facts = ctx.facts
    ip = facts.body("<&snmp::value::SnmpValue<'_> as pyo3::IntoPyObject<'py>>::into_pyobject")
    if ip is None:
        return False, "SnmpValue::into_pyobject not found", []
    vv = variant_index(facts, VALUE)
    prov = flow.Prov(ip)
    bad = []
    for name, d in vv.items():
        def ev(t, d=d):
            if t[0] == "discr" and t[1] == ("arg", 1):
                return d
            return None
        blocks, _ = cells.feasible(ip, prov, ev)
        tg = cells.tags(ip, blocks)
        if any(x[0] == "call" and x[1] and x[1].startswith("core::panicking::") for x in tg):
            bad.append(name)
    rows = []
    allok = True
    sites = [(b, blk, 0) for b, blk in flow.call_sites(facts, lambda p: p == ip.path)]
    # conversions performed inside pyo3 generics (dict.set_item(&key, &value), PyTuple::new, ...): any external
    # callee that receives a &SnmpValue converts it
    for body in facts.body_list:
        for blk in body.calls():
            t = blk.term
            cp = callee_path(t) or ""
            if cp == ip.path or not (cp.startswith("pyo3::") or cp.startswith("<pyo3::")):
                continue
            for ai, a in enumerate(t["args"]):
                pl = a.get("copy") or a.get("move")
                if pl and facts.types[pl["ty"]]["s"].replace("&", "").strip().startswith("snmp::value::SnmpValue"):
                    sites.append((body, blk, ai))
    if not sites:
        return False, "no call site of SnmpValue::into_pyobject", []
    for body, blk, ai in sites:
        cprov = flow.Prov(body)
        arg = cprov.operand(blk.term["args"][ai])
        reach = []
        for name, d in vv.items():
            def ev(t, d=d):
                if is_value_discr(t) or (t[0] == "discr" and t[1] == arg):
                    return d
                return None
            blocks, decided = cells.feasible(body, cprov, ev)
            if blk.idx in blocks:
                # values drawn through Iterator::filter: kinds the closure rejects do not reach the site
                if cells.filter_verdict_of(facts, arg, ev) is False:
                    continue
                # the site sits in a closure fed by an iterator consumer (for_each / try_for_each): the receiver's filter decides
                if body.kind == "Closure":
                    feed = cells.closure_feed(facts, body)
                    if feed is not None and cells.filter_verdict_of(facts, feed[3], ev) is False:
                        continue
                reach.append(name)
        hit = sorted(set(reach) & set(bad))
        rows.append((body, blk, hit, sorted(reach)))
        if hit:
            allok = False
    msg = "diverging arms %s; no call site can pass them" % sorted(bad) if allok else "a call site can pass a diverging variant"
    return allok, msg, (bad, rows)


def todo_rule(ctx, rep, rule):
    ok, msg, data = todo_analysis(ctx)
    if not data:
        rep.missing(rule, msg)
        return
    bad, rows = data
    rep.info(rule, "diverging-variants", "SnmpValue::into_pyobject diverges (todo!) for %s" % sorted(bad))
    for body, blk, hit, reach in rows:
        key = "%s|into_pyobject(value)" % body.path
        rep.check(rule, key, not hit, "variants reaching the conversion: %d, none diverging" % len(reach),
                  "a %s value can reach SnmpValue::into_pyobject, whose arm for it is todo!(): the reply panics the client" % "/".join(hit),
                  body.loc(blk.term["line"]), obligation=True)
    rep.floor(rule, 4, "(call sites of SnmpValue::into_pyobject)")


def v_pool(ctx):
    ok, msg, _ = pool_analysis(ctx)
    return ok, msg


def pool_analysis(ctx):
    """The two critical sections of the buffer pool contain no panic site, BufferHandle.buf is cleared only in drop,
    and every BufferHandle is built with Some(..)."""
    facts = ctx.facts
    res = numrun.run(ctx)
    rows = []
    ok = True
    for p in ("buf::pool::BufferPool::acquire", "<buf::pool::BufferHandle as std::ops::Drop>::drop"):
        b = facts.body(p)
        if b is None:
            return False, p + " not found", []
        locks = [blk for blk in b.calls() if (callee_path(blk.term) or "").endswith("Mutex::<T>::lock")]
        if len(locks) != 1:
            return False, "%s: expected one lock()" % p, []
        after = cfg.reachable(b, [locks[0].idx]) - {locks[0].idx}
        # sites inside the critical section other than the lock's own unwrap
        inside = []
        for blk in b.live_blocks():
            if blk.idx not in after:
                continue
            t = blk.term
            if t["k"] == "assert" and t["msg"]["k"] != "other":
                inside.append("assert:" + t["msg"]["k"])
            if t["k"] == "call":
                cp = callee_path(t) or ""
                last = cp.split("::")[-1]
                if cp.startswith("core::panicking") or last in ("expect", "index", "index_mut", "swap_remove", "remove", "insert"):
                    inside.append(cp)
                if last == "unwrap" and not flow.mentions(flow.Prov(b).operand(t["args"][0]), lambda s: s[0] == "call" and (s[1] or "").endswith("::lock")):
                    inside.append(cp)
                for cb in facts.resolve_call(t):
                    if cb.path not in ("buf::buffer::Buffer::reset", "<buf::buffer::Buffer as std::default::Default>::default"):
                        inside.append("local call " + cb.path)
        rows.append((p, inside))
        if inside:
            ok = False
    # BufferHandle.buf writers
    writers = []
    for body in facts.body_list:
        fw = flow.field_writes(body, "buf::pool::BufferHandle", "buf")
        if not fw:
            continue
        bprov = flow.Prov(body)
        for (bi, kind, st, line) in fw:
            if kind == "borrow_mut":
                # a mutable borrow handed to Option::as_mut cannot clear the slot
                dst = st["place"]["l"]
                users = [blk for blk in body.calls() if any((a.get("move") or a.get("copy") or {}).get("l") == dst for a in blk.term["args"])]
                if users and all((callee_path(u.term) or "").endswith("Option::<T>::as_mut") for u in users):
                    continue
            writers.append(body.path)
        for (bi, st, fields, vn) in flow.aggregate_inits(body, "buf::pool::BufferHandle"):
            t = flow.Prov(body).operand(fields["buf"])
            if not (t[0] == "agg" and t[2] == "Some"):
                ok = False
                rows.append((body.path, ["BufferHandle built with buf = %s" % flow.fmt(t)]))
    badw = [w for w in writers if w != "<buf::pool::BufferHandle as std::ops::Drop>::drop"]
    if badw:
        ok = False
        rows.append(("writers", badw))
    return ok, ("critical sections are panic-free, buf is taken only in drop" if ok else "pool invariant broken: %s" % rows), rows


def pool_rule(ctx, rep, rule):
    ok, msg, rows = pool_analysis(ctx)
    for p, inside in rows:
        rep.check(rule, "%s|critical-section" % p, not inside, "no panic site while the pool lock is held",
                  "sites that can panic while the pool mutex is held (poisoning it for every later request): %s" % inside, obligation=True)
    if not rows:
        rep.violation(rule, "buf::pool|anchors", msg)


VALIDATORS = {"bookmark": v_bookmark, "keysize": v_keysize, "todo": v_todo, "pool": v_pool}


# ---------------------------------------------------------------------------- property-level rules
# The floors below are vacuity guards (about half of what was counted on the reference tree): a refactoring that
# legitimately merges or removes sites must not trip them, a scope or an engine that lost most of its sites must.
def c01_panic(ctx, rep, rule):
    scope = scope_closure(ctx, RECV_ROOTS)
    n = report_sites(ctx, rep, rule, scope)
    if n < 50:
        rep.violation(rule, "floor", "only %d obligations on the receive path, floor is 50: the scope or the engine lost sites" % n)
    if len(scope) < 50:
        rep.violation(rule, "scope-floor", "receive-path closure has %d bodies, floor is 50" % len(scope))


def c17_sites(ctx, rep, rule):
    facts = ctx.facts
    scope = {b.path for b in facts.body_list if b.path.startswith("buf::") or b.path.startswith("<buf::")}
    scope |= scope_closure(ctx, SEND_ROOTS)
    n = report_sites(ctx, rep, rule, scope)
    if n < 45:
        rep.violation(rule, "floor", "only %d obligations in the buffer / send-path scope, floor is 45" % n)


def c12_refuse(ctx, rep, rule):
    scope = scope_closure(ctx, KEY_ROOTS)
    n = report_sites(ctx, rep, rule, scope)
    if n < 15:
        rep.violation(rule, "floor", "only %d obligations on the key-installation paths, floor is 15" % n)


def c08_sites(ctx, rep, rule):
    scope = scope_closure(ctx, OID_ROOTS)
    n = report_sites(ctx, rep, rule, scope)
    if n < 8:
        rep.violation(rule, "floor", "only %d obligations in the OID conversions, floor is 8" % n)


def c15_nowrap(ctx, rep, rule):
    facts = ctx.facts
    scope = {b.path for b in facts.body_list if b.file in ("src/ber/int.rs", "src/ber/objectid.rs", "src/ber/null.rs") or
             b.path in ("buf::buffer::Buffer::push_tag_len", "buf::buffer::Buffer::push_tagged")}
    n = report_sites(ctx, rep, rule, scope)
    if n < 12:
        rep.violation(rule, "floor", "only %d obligations in the integer / OID codecs, floor is 12" % n)


def c03_nopanic(ctx, rep, rule):
    scope = scope_closure(ctx, SEND_ROOTS)
    n = report_sites(ctx, rep, rule, scope)
    if n < 30:
        rep.violation(rule, "floor", "only %d obligations on the send path, floor is 30" % n)


def oid_store(ctx, rep, rule):
    """OidStorage::store replaces the remembered OID (contract len(self) == len(oid) on every exit): the follow-up request
    of a walk and the ordering guard use exactly the last accepted OID."""
    path = "<std::vec::Vec<u8> as ber::objectid::OidStorage>::store"
    if ctx.facts.body(path) is None:
        rep.missing(rule, "OidStorage::store for Vec<u8>")
        return
    n = report_sites(ctx, rep, rule, {path})
    if n == 0:
        rep.missing(rule, "OidStorage::store: contract obligation")


def des_padding(ctx, rep, rule):
    """DES-CBC padding: the length handed to the cipher covers the scoped PDU and exceeds it by at most 7 octets (probe in the
    num engine on DesKey::encrypt, trace-partitioned: decided on every arm that computes the padded length)."""
    path = "<privacy::des::DesKey as privacy::SnmpPriv>::encrypt"
    body = ctx.facts.body(path)
    if body is None:
        rep.missing(rule, "DesKey::encrypt")
        return
    res = numrun.run(ctx)
    n = 0
    for p, o in res.obligations({path}):
        if o["kind"] != "probe":
            continue
        n += 1
        if o["key"].endswith("values-tracked"):
            rep.inconclusive(rule, "DesKey::encrypt|probe", "padded length not tracked through this shape of the code", body.loc(o["line"]))
            continue
        rep.check(rule, "DesKey::encrypt|%s" % o["key"], o["ok"], "holds on every path to the cipher",
                  "the padded length handed to DES-CBC is not within [len, len + 7] of the scoped PDU (%s): %s" % (o["key"].split("|")[-1], o["detail"]),
                  body.loc(o["line"]), obligation=True)
    if n == 0:
        rep.inconclusive(rule, "DesKey::encrypt|probe", "no encrypt_padded_mut call found: padding not decided", body.loc())
