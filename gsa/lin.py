"""Linear expressions over integer symbols and an exact LP (two-phase simplex over Fractions) used
by the `num` domain for entailment: constraints are `lin <= 0`; an obligation `e <= 0` holds in every
concrete state described by the constraints when max(e) over the rational relaxation is <= 0."""
from fractions import Fraction

INF = float("inf")


class Lin:
    """c + sum(coeff * sym); immutable."""
    __slots__ = ("c", "t", "_h")

    def __init__(self, c=0, t=()):
        self.c = c
        self.t = t  # tuple of (sym, coeff) sorted by sym, coeff != 0
        self._h = None

    @staticmethod
    def const(c):
        return Lin(c, ())

    @staticmethod
    def sym(s, k=1):
        return Lin(0, ((s, k),)) if k else Lin(0, ())

    @staticmethod
    def from_dict(c, d):
        return Lin(c, tuple(sorted((s, k) for s, k in d.items() if k != 0)))

    def as_dict(self):
        return dict(self.t)

    def is_const(self):
        return not self.t

    def syms(self):
        return [s for s, _ in self.t]

    def __add__(self, o):
        if isinstance(o, int):
            return Lin(self.c + o, self.t)
        if not o.t:
            return Lin(self.c + o.c, self.t)
        if not self.t:
            return Lin(self.c + o.c, o.t)
        d = dict(self.t)
        for s, k in o.t:
            d[s] = d.get(s, 0) + k
        return Lin.from_dict(self.c + o.c, d)

    __radd__ = __add__

    def __neg__(self):
        return Lin(-self.c, tuple((s, -k) for s, k in self.t))

    def __sub__(self, o):
        if isinstance(o, int):
            return Lin(self.c - o, self.t)
        return self + (-o)

    def __rsub__(self, o):
        return (-self) + o

    def scale(self, k):
        if k == 0:
            return Lin(0, ())
        return Lin(self.c * k, tuple((s, c * k) for s, c in self.t))

    def __eq__(self, o):
        return isinstance(o, Lin) and self.c == o.c and self.t == o.t

    def __hash__(self):
        if self._h is None:
            self._h = hash((self.c, self.t))
        return self._h

    def subst(self, m):
        """Replace symbols by Lins (dict sym -> Lin)."""
        if not any(s in m for s, _ in self.t):
            return self
        r = Lin(self.c, ())
        for s, k in self.t:
            if s in m:
                r = r + m[s].scale(k)
            else:
                r = r + Lin(0, ((s, k),))
        return r

    def __repr__(self):
        parts = []
        for s, k in self.t:
            parts.append("%s%s*s%s" % ("+" if k > 0 else "-", abs(k) if abs(k) != 1 else "", s) if abs(k) != 1 else "%ss%s" % ("+" if k > 0 else "-", s))
        if self.c or not parts:
            parts.append("%+d" % self.c)
        return "".join(parts)


# ----------------------------------------------------------------------------- simplex
def lp_max(obj, cons, lo, hi):
    """Maximise obj (Lin) subject to cons (list of Lin, each meaning lin <= 0) and symbol bounds
    lo[s] <= s <= hi[s] (ints or -INF/INF).  Returns a Fraction, INF (unbounded) or None (infeasible)."""
    syms = set(obj.syms())
    for c in cons:
        syms.update(c.syms())
    syms = sorted(syms)
    if not syms:
        for c in cons:
            if c.c > 0:
                return None
        return Fraction(obj.c)
    # substitute x = lo + x' (x' >= 0) when lo finite, x = hi - x' when only hi finite, else x = p - n
    cols = []
    colmap = {}  # sym -> list of (col, sign), offset
    offset = {}
    for s in syms:
        l, h = lo.get(s, -INF), hi.get(s, INF)
        if l != -INF:
            colmap[s] = [(len(cols), 1)]
            offset[s] = l
            cols.append(s)
        elif h != INF:
            colmap[s] = [(len(cols), -1)]
            offset[s] = h
            cols.append(s)
        else:
            colmap[s] = [(len(cols), 1), (len(cols) + 1, -1)]
            offset[s] = 0
            cols.append(s)
            cols.append(s)
    n = len(cols)

    def row_of(lin):
        r = [Fraction(0)] * n
        b = Fraction(-lin.c)
        for s, k in lin.t:
            b -= k * offset[s]
            for col, sg in colmap[s]:
                r[col] += k * sg
        return r, b  # r.x' <= b

    rows = []
    for c in cons:
        rows.append(row_of(c))
    for s in syms:
        l, h = lo.get(s, -INF), hi.get(s, INF)
        if l != -INF and h != INF:
            r = [Fraction(0)] * n
            r[colmap[s][0][0]] = Fraction(1)
            rows.append((r, Fraction(h - l)))
    orow, ob = row_of(-obj)  # obj = -(orow.x') ... careful below
    # objective: maximise obj = obj.c + sum k*(offset + sg*x')
    cvec = [Fraction(0)] * n
    c0 = Fraction(obj.c)
    for s, k in obj.t:
        c0 += k * offset[s]
        for col, sg in colmap[s]:
            cvec[col] += k * sg
    res = _simplex(cvec, rows, n)
    if res is None:
        return None
    if res == INF:
        return INF
    return res + c0


def _simplex(c, rows, n):
    """maximise c.x s.t. rows (a, b): a.x <= b, x >= 0.  Returns max, INF or None."""
    m = len(rows)
    if m == 0:
        return INF if any(v > 0 for v in c) else Fraction(0)
    # tableau with slack variables; artificial variables for rows with negative b
    # columns: x (n) | slack (m) | artificial (k) | rhs
    art_rows = [i for i, (a, b) in enumerate(rows) if b < 0]
    k = len(art_rows)
    width = n + m + k + 1
    T = []
    basis = []
    ai = 0
    for i, (a, b) in enumerate(rows):
        r = [Fraction(0)] * width
        if b < 0:
            for j in range(n):
                r[j] = -a[j]
            r[n + i] = Fraction(-1)
            r[n + m + ai] = Fraction(1)
            r[-1] = -b
            basis.append(n + m + ai)
            ai += 1
        else:
            for j in range(n):
                r[j] = a[j]
            r[n + i] = Fraction(1)
            r[-1] = b
            basis.append(n + i)
        T.append(r)

    def pivot(pr, pc):
        pv = T[pr][pc]
        if pv != 1:
            T[pr] = [v / pv if v._numerator else v for v in T[pr]]
        rowp = T[pr]
        nz = [j for j, b in enumerate(rowp) if b._numerator]      # the tableau is sparse: touch the non-zero columns only
        for i in range(len(T)):
            if i != pr and T[i][pc]._numerator:
                f = T[i][pc]
                ri = list(T[i])
                for j in nz:
                    ri[j] = ri[j] - f * rowp[j]
                T[i] = ri
        basis[pr] = pc

    def run(objrow, allowed):
        # objrow: reduced costs z_j - c_j form: we maximise; entering col has objrow[j] < 0 (Bland)
        while True:
            pc = None
            for j in range(allowed):
                if objrow[j] < 0:
                    pc = j
                    break
            if pc is None:
                return "opt"
            pr = None
            best = None
            for i in range(len(T)):
                if T[i][pc] > 0:
                    ratio = T[i][-1] / T[i][pc]
                    if best is None or ratio < best or (ratio == best and basis[i] < basis[pr]):
                        best = ratio
                        pr = i
            if pr is None:
                return "unbounded"
            pivot(pr, pc)
            f = objrow[pc]
            rowp = T[pr]
            for j in range(width):
                if rowp[j]._numerator:
                    objrow[j] -= f * rowp[j]

    if k:
        # phase 1: maximise -(sum of artificials)
        obj1 = [Fraction(0)] * width
        for j in range(n + m, n + m + k):
            obj1[j] = Fraction(1)
        for i, bv in enumerate(basis):
            if bv >= n + m:
                obj1 = [a - b for a, b in zip(obj1, T[i])]
        st = run(obj1, n + m + k)
        if obj1[-1] != 0:  # -(sum art) optimum is -obj1[-1]... value stored negated
            if obj1[-1] < 0:
                return None
        # drive artificials out of the basis
        for i, bv in enumerate(list(basis)):
            if bv >= n + m:
                if T[i][-1] != 0:
                    return None
                pc = None
                for j in range(n + m):
                    if T[i][j] != 0:
                        pc = j
                        break
                if pc is not None:
                    pivot(i, pc)
    # phase 2
    obj2 = [Fraction(0)] * width
    for j in range(n):
        obj2[j] = -c[j]
    for i, bv in enumerate(basis):
        if bv < n and obj2[bv] != 0:
            f = obj2[bv]
            obj2 = [a - f * b for a, b in zip(obj2, T[i])]
    # forbid artificial columns
    st = run(obj2, n + m)
    if st == "unbounded":
        return INF
    return obj2[-1]
