"""Static facts about the loops of a MIR body that the `num` engine uses for bounded unrolling and for the
capacity-exit obligation (both read the program text only):

* counter(l): a local updated in the loop only by `l = l +/- const` and compared with a constant by a branch of the loop
  - the trip count is a compile-time constant, so the loop-head state may be kept apart per value of l;
* consumed(v): a local updated in the loop only by `v = v / const` or `v = v >> const` - a value that is used up digit by
  digit / octet by octet;
* capacity exits: edges that leave the loop and are decided by a counter comparison, or by the `None` of `next()` on an
  iterator (the room ran out), as opposed to exits decided by the consumed value."""
from . import cfg as cfgm
from .facts import callee_path


def _defs(body, blocks=None):
    """local -> [(block idx, rvalue or ('call', term))] for whole-local definitions."""
    out = {}
    for blk in body.live_blocks():
        if blocks is not None and blk.idx not in blocks:
            continue
        for st in blk.stmts:
            if st["k"] == "assign" and not st["place"]["p"]:
                out.setdefault(st["place"]["l"], []).append((blk.idx, st["rv"]))
        t = blk.term
        if t and t["k"] == "call" and not t["dest"]["p"]:
            out.setdefault(t["dest"]["l"], []).append((blk.idx, ("call", t)))
    return out


def _place_local(op, allow_field0=False):
    pl = op.get("move") or op.get("copy")
    if pl is None:
        return None
    if not pl["p"]:
        return pl["l"]
    if allow_field0 and len(pl["p"]) == 1 and isinstance(pl["p"][0], dict) and pl["p"][0].get("field") == 0:
        return pl["l"]
    return None


def _const_int(op):
    c = op.get("const")
    if c is None:
        return None
    v = (c.get("v") or {}).get("int")
    return v if isinstance(v, int) and not isinstance(v, bool) else None


def _through_copies(alld, l, depth=0):
    """Follow `t = copy x` temporaries (single definition that is a plain use) to the variable they read."""
    for _ in range(6):
        d = alld.get(l, [])
        if len(d) == 1 and not isinstance(d[0][1], tuple) and d[0][1]["k"] in ("use",):
            q = _place_local(d[0][1]["op"])
            if q is None:
                return l
            l = q
            continue
        return l
    return l


def _kinds_of(ind, alld, l):
    out = []
    for bi, rv in ind.get(l, []):
        if isinstance(rv, tuple):
            out.append("other")
            continue
        src = rv
        if rv["k"] == "use":
            tl = _place_local(rv["op"], allow_field0=True)
            td = alld.get(tl, []) if tl is not None else []
            if len(td) == 1 and not isinstance(td[0][1], tuple):
                src = td[0][1]
        if src["k"] == "bin":
            op = (src.get("op") or "").replace("WithOverflow", "").replace("Unchecked", "")
            a = _place_local(src["a"]) if "a" in src else None
            a = _through_copies(alld, a) if a is not None else None
            c = _const_int(src["b"]) if "b" in src else None
            if a == l and c is not None and op in ("Add", "Sub"):
                out.append("step")
                continue
        out.append("other")
    return out


def analyse(body):
    """{head: {"blocks": set, "counters": {local}, "consumed": {local: ("div"|"shr", signed)}, "capacity_exits": {(src, dst)}}}"""
    alld = _defs(body)
    res = {}
    for head, blocks in cfgm.natural_loops(body).items():
        ind = _defs(body, blocks)
        counters, consumed = set(), {}
        steps, amounts = {}, {}
        for l, ds in ind.items():
            kinds = set()
            for bi, rv in ds:
                if isinstance(rv, tuple):
                    kinds.add("other")
                    continue
                # l = move (_t.0) with _t = Add/SubWithOverflow(copy l, const); or l = Add/Sub/Div/Shr(copy l, const)
                src = rv
                if rv["k"] == "use":
                    tl = _place_local(rv["op"], allow_field0=True)
                    td = alld.get(tl, []) if tl is not None else []
                    if len(td) == 1 and not isinstance(td[0][1], tuple):
                        src = td[0][1]
                if src["k"] in ("bin", "checked") or (src["k"] == "bin"):
                    op = (src.get("op") or "").replace("WithOverflow", "").replace("Unchecked", "")
                    a = _place_local(src["a"]) if "a" in src else None
                    a = _through_copies(alld, a) if a is not None else None
                    c = _const_int(src["b"]) if "b" in src else None
                    if a == l and c is not None and op in ("Add", "Sub"):
                        kinds.add("step")
                        steps.setdefault(l, []).append(c if op == "Add" else -c)
                        continue
                    if a == l and c is not None and op in ("Div", "Shr") and c > 0:
                        kinds.add("div" if op == "Div" else "shr")
                        amounts.setdefault(l, []).append(c)
                        continue
                kinds.add("other")
            if kinds == {"step"}:
                counters.add(l)
            elif kinds in ({"div"}, {"shr"}):
                ty = body.local_ty(l)
                consumed[l] = (next(iter(kinds)), bool(ty.get("signed")))
        # counters that a branch of the loop compares with a constant; exits decided by such a branch
        bounded, cap = set(), set()
        for bi in blocks:
            t = body.blocks[bi].term
            if not t or t["k"] != "switch":
                continue
            leaving = [s for s in body.blocks[bi].succs() if s not in blocks and not body.blocks[s].cleanup]
            dl = _place_local(t["discr"])
            dd = alld.get(dl, []) if dl is not None else []
            if len(dd) == 1 and not isinstance(dd[0][1], tuple) and dd[0][1]["k"] == "bin" and dd[0][1].get("op") in ("Lt", "Le", "Gt", "Ge", "Eq", "Ne"):
                rv = dd[0][1]
                for x, y in ((rv["a"], rv["b"]), (rv["b"], rv["a"])):
                    xl = _place_local(x)
                    xl = _through_copies(alld, xl) if xl is not None else None
                    if xl in counters and _const_int(y) is not None:
                        bounded.add(xl)
                        for s in leaving:
                            cap.add((bi, s))
            # `None` of an iterator's next(): the discriminant of the Option returned by a next() call of this loop
            if len(dd) == 1 and not isinstance(dd[0][1], tuple) and dd[0][1]["k"] == "discr":
                pl = dd[0][1]["place"]
                od = alld.get(pl["l"], []) if not pl["p"] else []
                if len(od) == 1 and isinstance(od[0][1], tuple):
                    cp = callee_path(od[0][1][1]) or ""
                    if cp.endswith("::next") and od[0][0] in blocks:
                        for s in leaving:
                            cap.add((bi, s))
        # `while v != 0` / `while v > 0`: the head tests a consumed unsigned value against zero and the zero outcome leaves the loop
        zero_exit = set()
        zero_at_tail = False
        sw_blocks = [b_ for b_ in blocks if body.blocks[b_].term and body.blocks[b_].term["k"] == "switch"]
        # the one test of the loop: at the head (`while v != 0`), or further down (`loop { ..; v /= c; if v == 0 { break } }`)
        test_block = head if (body.blocks[head].term and body.blocks[head].term["k"] == "switch") else (sw_blocks[0] if len(sw_blocks) == 1 else head)
        zero_at_tail = test_block != head
        t = body.blocks[test_block].term
        if t and t["k"] == "switch":
            dl = _place_local(t["discr"])
            dd = alld.get(dl, []) if dl is not None else []
            if len(dd) == 1 and not isinstance(dd[0][1], tuple) and dd[0][1]["k"] == "bin" and dd[0][1].get("op") in ("Ne", "Eq", "Gt", "Lt"):
                rv = dd[0][1]
                for x, y in ((rv["a"], rv["b"]), (rv["b"], rv["a"])):
                    xl = _place_local(x)
                    xl = _through_copies(alld, xl) if xl is not None else None
                    if xl in consumed and not consumed[xl][1] and _const_int(y) == 0:
                        # which successor is taken when v == 0?
                        op = rv["op"]
                        tg = t["targets"]
                        if len(tg) == 1:
                            val, dst = tg[0]
                            other = t["otherwise"]
                            true_dst, false_dst = (dst, other) if val == 1 else (other, dst)
                            zero_dst = true_dst if op == "Eq" else false_dst   # Ne / Gt(v,0) / Lt(0,v) are false at zero
                            if op == "Lt" and x is rv["a"]:
                                continue   # v < 0 on an unsigned value: not a zero test
                            if zero_dst not in blocks:
                                zero_exit.add(xl)
        res[head] = {"blocks": set(blocks), "counters": bounded, "consumed": consumed, "capacity_exits": cap,
                     "steps": {l: v for l, v in steps.items() if l in ind and l not in consumed},
                     "amounts": amounts, "zero_exit": zero_exit, "zero_at_tail": zero_at_tail and bool(zero_exit),
                     "step_counters": {l for l in steps if set(_kinds_of(ind, alld, l)) == {"step"}}}
    return res
