"""Flow-level primitives on resolved MIR: provenance terms, guards (conditions with their
CFG edges), exclusive regions of switch arms, writers of fields, call sites."""
from . import cfg
from .facts import callee_path, const_int, op_place, place_key

# calls that carry their (first) argument's data unchanged: erased in provenance terms
TRANSPARENT_SUFFIX = (
    "::as_bytes", "::as_ref", "::as_str", "::as_slice", "::as_mut", "::borrow", "::deref", "::deref_mut",
    "::into", "::from", "::clone", "::to_owned", "::to_vec", "::as_borrowed", "::as_owned", "::as_any",
    "::into_any", "::unwrap_or_default", "::as_deref", "::iter", "::into_iter", "::copied", "::cloned",
)
TRANSPARENT_EXACT = set()


def is_transparent(path):
    if path is None:
        return False
    p = path.split("<impl")[0] if False else path
    return p in TRANSPARENT_EXACT or any(p.endswith(s) for s in TRANSPARENT_SUFFIX)


class Prov:
    """Backward def-use tracing inside one body (flow-insensitive over locals: a local with several
    definitions yields a phi of all of them)."""

    def __init__(self, body, transparent=True, only_blocks=None):
        """only_blocks: restrict the definitions considered to these blocks (the blocks feasible under a cell):
        a local assigned on several match arms then denotes the value of the arm under consideration."""
        self.body = body
        self.transparent = transparent
        self.only_blocks = only_blocks
        self.defs = {}       # local -> list of ("assign", rv) | ("call", term)
        self.pdefs = {}      # (local, proj-prefix) -> list of defs for partial writes
        self.mut_borrowed = set()
        for b in body.live_blocks():
            if only_blocks is not None and b.idx not in only_blocks:
                continue
            for st in b.stmts:
                if st["k"] == "assign":
                    pk = place_key(st["place"])
                    if not pk[1]:
                        self.defs.setdefault(pk[0], []).append(("assign", st["rv"], b.idx))
                    else:
                        self.pdefs.setdefault(pk, []).append(("assign", st["rv"], b.idx))
                    rv = st["rv"]
                    if rv["k"] == "ref" and rv.get("mut"):
                        self.mut_borrowed.add(rv["place"]["l"])
            t = b.term
            if t and t["k"] == "call":
                pk = place_key(t["dest"])
                if not pk[1]:
                    self.defs.setdefault(pk[0], []).append(("call", t, b.idx))
                else:
                    self.pdefs.setdefault(pk, []).append(("call", t, b.idx))
        self._memo = {}
        self._stack = set()

    # --- terms
    def local(self, l, depth=0):
        if l in self._memo:
            return self._memo[l]
        if l in self._stack or depth > 40:
            return ("loop", l)
        body = self.body
        ds = self.defs.get(l, [])
        if 1 <= l <= body.arg_count and not ds:
            t = ("arg", l)
            self._memo[l] = t
            return t
        self._stack.add(l)
        try:
            terms = []
            if 1 <= l <= body.arg_count:
                terms.append(("arg", l))
            for d in ds:
                terms.append(self._def_term(d, depth + 1))
            # field-wise initialisation: (_l.0 = a; _l.1 = b)
            if not ds:
                parts = {pk: v for pk, v in self.pdefs.items() if pk[0] == l}
                if parts:
                    terms.append(("parts", tuple(sorted((str(pk[1]), self._def_term(v[0], depth + 1)) for pk, v in parts.items()))))
            uniq = []
            for t in terms:
                if t not in uniq:
                    uniq.append(t)
            if not uniq:
                r = ("unk", l)
            elif len(uniq) == 1:
                r = uniq[0]
            else:
                r = ("phi", tuple(uniq))
        finally:
            self._stack.discard(l)
        if not self._stack:
            self._memo[l] = r
        return r

    def _def_term(self, d, depth):
        if d[0] == "assign":
            return self.rvalue(d[1], depth)
        return self.call_term(d[1], depth)

    def call_term(self, t, depth=0):
        path = callee_path(t)
        args = tuple(self.operand(a, depth + 1) for a in t["args"])
        if self.transparent and is_transparent(path) and args:
            return args[0]
        return ("call", path or "<indirect>", args)

    def place(self, pl, depth=0):
        pk = place_key(pl)
        # exact partial definition?
        if pk[1] and "deref" not in pk[1] and pk in self.pdefs and len(self.pdefs[pk]) == 1 and not self.defs.get(pk[0]):
            return self._def_term(self.pdefs[pk][0], depth + 1)
        t = self.local(pl["l"], depth)
        for e in pl["p"]:
            t = self.project(t, e, depth)
        return t

    def project(self, t, e, depth=0):
        if e == "deref":
            return t
        if isinstance(e, str):
            return t
        if "field" in e:
            name = e["name"]
            # look through aggregates
            if t[0] == "agg":
                for fname, ft in t[3]:
                    if fname == name or fname == str(e["field"]):
                        return ft
            if t[0] == "phi":
                subs = tuple(self.project(x, e, depth) for x in t[1])
                u = []
                for s in subs:
                    if s not in u:
                        u.append(s)
                return u[0] if len(u) == 1 else ("phi", tuple(u))
            return ("f", t, name)
        if "index" in e:
            return ("idx", t, self.local(e["index"], depth + 1))
        if "const_index" in e:
            return ("idx", t, ("const", -e["const_index"] if e["from_end"] else e["const_index"]))
        if "subslice" in e:
            return ("sub", t, e["subslice"], e["to"], e["from_end"])
        if "downcast" in e:
            if t[0] == "agg" and t[2] == e["name"]:
                return t
            return ("dc", t, e["name"])
        return t

    def operand(self, op, depth=0):
        if "const" in op:
            c = op["const"]
            v = c["v"] or {}
            for k in ("int", "bool", "str"):
                if k in v:
                    return ("const", v[k])
            if "fn" in v:
                return ("fn", v["fn"])
            if "mem" in v:
                return ("const", tuple(v["mem"]), v.get("of"))
            if "bytes" in v:
                return ("const", tuple(v["bytes"]))
            if "promoted" in v:
                return self.promoted(v["promoted"])
            if "zst" in v:
                return ("const", ())
            if "uneval" in v:
                return ("uneval", v["uneval"])
            if "param" in v:
                return ("cparam", v["param"])
            return ("const?",)
        pl = op_place(op)
        if pl is None:
            return ("unk",)
        return self.place(pl, depth)

    def promoted(self, idx):
        pb = self.body.promoted
        if idx >= len(pb):
            return ("promoted", idx)
        p = Prov(pb[idx], self.transparent)
        return ("promoted", p.local(0))

    def rvalue(self, rv, depth=0):
        k = rv["k"]
        if k == "use":
            return self.operand(rv["op"], depth)
        if k in ("ref", "rawptr", "copy_for_deref"):
            return self.place(rv["place"], depth)
        if k == "cast":
            inner = self.operand(rv["op"], depth)
            ck = rv["ck"]
            if ck.startswith("PointerCoercion") or ck in ("PtrToPtr", "Transmute", "Subtype"):
                return inner
            return ("cast", inner, self.body.facts.types[rv["to"]]["s"])
        if k == "bin":
            return ("bin", rv["op"], self.operand(rv["a"], depth), self.operand(rv["b"], depth))
        if k == "un":
            return ("un", rv["op"], self.operand(rv["a"], depth))
        if k == "discr":
            return ("discr", self.place(rv["place"], depth))
        if k == "agg":
            if rv["ak"] == "adt":
                fields = tuple((fn, self.operand(o, depth)) for fn, o in zip(rv["fields"], rv["ops"]))
                return ("agg", rv["path"], rv["vname"], fields)
            fields = tuple((str(i), self.operand(o, depth)) for i, o in enumerate(rv["ops"]))
            return ("agg", rv["ak"], rv.get("path", "") if rv["ak"] == "closure" else "", fields)
        if k == "repeat":
            return ("repeat", self.operand(rv["op"], depth), rv["n"])
        return ("unk-rv", k)


def fmt(t, body=None):
    """Readable, canonical rendering of a term."""
    k = t[0]
    if k == "arg":
        return "arg%d" % t[1]
    if k == "f":
        return "%s.%s" % (fmt(t[1]), t[2])
    if k == "dc":
        return "(%s as %s)" % (fmt(t[1]), t[2])
    if k == "idx":
        return "%s[%s]" % (fmt(t[1]), fmt(t[2]))
    if k == "sub":
        return "%s[%s..%s%s]" % (fmt(t[1]), t[2], "-" if t[4] else "", t[3])
    if k == "const":
        return "const(%s)" % (t[1],)
    if k == "call":
        return "%s(%s)" % (short(t[1]), ", ".join(fmt(a) for a in t[2]))
    if k == "agg":
        return "%s::%s{%s}" % (short(t[1]), t[2], ", ".join("%s: %s" % (n, fmt(v)) for n, v in t[3]))
    if k == "bin":
        return "%s(%s, %s)" % (t[1], fmt(t[2]), fmt(t[3]))
    if k == "un":
        return "%s(%s)" % (t[1], fmt(t[2]))
    if k == "cast":
        return "(%s as %s)" % (fmt(t[1]), t[2])
    if k == "discr":
        return "discr(%s)" % fmt(t[1])
    if k == "phi":
        return "phi(%s)" % " | ".join(fmt(x) for x in t[1])
    if k == "promoted":
        return "promoted(%s)" % (fmt(t[1]) if isinstance(t[1], tuple) else t[1])
    if k == "repeat":
        return "[%s; %s]" % (fmt(t[1]), t[2])
    if k == "parts":
        return "parts(%s)" % ", ".join("%s=%s" % (a, fmt(b)) for a, b in t[1])
    return "%s(%s)" % (k, ",".join(str(x) for x in t[1:]))


def short(path):
    if path is None:
        return "?"
    return path


def subterms(t):
    yield t
    for x in t[1:]:
        if isinstance(x, tuple) and x and isinstance(x[0], str):
            yield from subterms(x)
        elif isinstance(x, tuple):
            for y in x:
                if isinstance(y, tuple) and y and isinstance(y[0], str):
                    yield from subterms(y)
                elif isinstance(y, tuple) and len(y) == 2 and isinstance(y[1], tuple):
                    yield from subterms(y[1])


def mentions(t, pred):
    return any(pred(s) for s in subterms(t))


def field_path(t):
    """('f',('f',('arg',1),'usm'),'engine_id') -> ('arg1', 'usm', 'engine_id'); None when not a pure field path."""
    names = []
    while t[0] in ("f", "dc"):
        if t[0] == "f":
            names.append(t[2])
        t = t[1]
    if t[0] == "arg":
        return ("arg%d" % t[1],) + tuple(reversed(names))
    return None


# ----------------------------------------------------------------------------- guards
class Guard:
    """A two-way branch on a boolean condition: term of the condition and its two CFG edges."""
    __slots__ = ("block", "term", "true_edge", "false_edge", "line")

    def __init__(self, block, term, true_edge, false_edge, line):
        self.block = block
        self.term = term
        self.true_edge = true_edge
        self.false_edge = false_edge
        self.line = line


def _blocks_reaching(body, target):
    preds = body.preds()
    seen, work = {target}, [target]
    while work:
        x = work.pop()
        for p in preds.get(x, []):
            if p not in seen and not body.blocks[p].cleanup:
                seen.add(p)
                work.append(p)
    return seen


def guards(body, prov=None):
    prov = prov or Prov(body)
    out = []
    for b in body.live_blocks():
        t = b.term
        if not t or t["k"] != "switch":
            continue
        ty = body.facts.types[t["dty"]]
        if ty["k"] != "bool":
            continue
        term = prov.operand(t["discr"])
        tg = t["targets"]
        if len(tg) == 1 and tg[0][0] == 0:
            fe, te = (b.idx, tg[0][1]), (b.idx, t["otherwise"])
        elif len(tg) == 1 and tg[0][0] == 1:
            te, fe = (b.idx, tg[0][1]), (b.idx, t["otherwise"])
        else:
            continue
        # a flag with a constant alternative (`a && b` kept in a bool): after jump threading the constant arm no longer
        # reaches this branch, but the flow-insensitive trace still lists its store - read the condition again from the
        # blocks that can actually run before it
        if term[0] == "phi" and any(x[0] == "const" for x in term[1]) and prov.only_blocks is None:
            anc = _blocks_reaching(body, b.idx)
            t2 = Prov(body, transparent=prov.transparent, only_blocks=anc).operand(t["discr"])
            if t2[0] != "phi" or len(t2[1]) < len(term[1]):
                term = t2
        # normalise negations
        while term[0] == "un" and term[1] == "Not":
            term = term[2]
            te, fe = fe, te
        out.append(Guard(b.idx, term, te, fe, t["line"]))
    return out


def eq_atom(g):
    """If the guard compares two values for (in)equality return (a, b, equal_edge, unequal_edge)."""
    t = g.term
    if t[0] == "call" and len(t[2]) == 2:
        p = t[1] or ""
        if p.endswith("::eq"):
            return (t[2][0], t[2][1], g.true_edge, g.false_edge)
        if p.endswith("::ne"):
            return (t[2][0], t[2][1], g.false_edge, g.true_edge)
    if t[0] == "bin" and t[1] in ("Eq", "Ne"):
        if t[1] == "Eq":
            return (t[2], t[3], g.true_edge, g.false_edge)
        return (t[2], t[3], g.false_edge, g.true_edge)
    return None


# ----------------------------------------------------------------------------- switch arms
def exclusive_region(body, sw_block, target, label=None):
    """Blocks reachable from `target` (entered from sw_block) that are not reachable from any other
    successor of sw_block without passing through target's own region: the arm's own code."""
    others = set()
    for tg, lb in body.blocks[sw_block].edges():
        if tg != target:
            others |= cfg.reachable(body, [tg])
    mine = cfg.reachable(body, [target])
    return mine - others


def events_in(body, blocks, prov=None):
    """Calls and aggregate constructions inside a set of blocks."""
    ev = []
    for bi in sorted(blocks):
        b = body.blocks[bi]
        if b.cleanup:
            continue
        for st in b.stmts:
            if st["k"] == "assign" and st["rv"]["k"] == "agg" and st["rv"]["ak"] == "adt":
                ev.append(("agg", st["rv"]["path"], st["rv"]["vname"], bi, st))
        t = b.term
        if t and t["k"] == "call":
            ev.append(("call", callee_path(t), None, bi, t))
    return ev


# ----------------------------------------------------------------------------- types of place prefixes
def prefix_types(body, pl):
    """Type dict of every prefix of a place: [ty(local), ty(local.p0), ...]."""
    types = body.facts.types
    t = types[body.locals[pl["l"]]["ty"]]
    out = [t]
    variant = None
    for e in pl["p"]:
        if e == "deref":
            t = types[t["to"]] if t.get("k") in ("ref", "rawptr") else _boxed(types, t)
            variant = None
        elif isinstance(e, str):
            variant = None
        elif "field" in e:
            if t.get("k") == "adt":
                vs = t.get("variants", [])
                v = vs[variant if variant is not None else 0] if vs else None
                f = v["fields"][e["field"]] if v and e["field"] < len(v["fields"]) else None
                t = types[f["ty"]] if f and "ty" in f else {"k": "unknown", "s": "?"}
            elif t.get("k") == "tuple":
                t = types[t["elems"][e["field"]]]
            else:
                t = {"k": "unknown", "s": "?"}
            variant = None
        elif "downcast" in e:
            variant = e["downcast"]
            out.append(t)
            continue
        elif "index" in e or "const_index" in e:
            t = types[t["elem"]] if "elem" in t else {"k": "unknown", "s": "?"}
            variant = None
        elif "subslice" in e:
            variant = None
        out.append(t)
    return out


def _boxed(types, t):
    return {"k": "unknown", "s": "?"}


def field_writes(body, adt_path, field):
    """Statements of `body` that write (assign, or mutably borrow) field `field` of ADT `adt_path`.
    Returns list of (block idx, kind, stmt-or-term, line)."""
    out = []

    def hits(pl):
        pts = prefix_types(body, pl)
        for i, e in enumerate(pl["p"]):
            if isinstance(e, dict) and "field" in e and e.get("name") == field:
                bt = pts[i]
                if bt.get("k") == "adt" and bt.get("path") == adt_path:
                    return i
        return None

    for b in body.live_blocks():
        for st in b.stmts:
            if st["k"] != "assign":
                continue
            if hits(st["place"]) is not None:
                out.append((b.idx, "assign", st, st["line"]))
            rv = st["rv"]
            if rv["k"] in ("ref", "rawptr") and (rv.get("mut") or rv.get("kind") == "Mut") and hits(rv["place"]) is not None:
                out.append((b.idx, "borrow_mut", st, st["line"]))
        t = b.term
        if t and t["k"] == "call" and hits(t["dest"]) is not None:
            out.append((b.idx, "call_dest", t, t["line"]))
        if t and t["k"] == "drop":
            pass
    return out


def aggregate_inits(body, adt_path):
    """Aggregate constructions of `adt_path` in body: (block, stmt, {field: operand})."""
    out = []
    for b in body.live_blocks():
        for st in b.stmts:
            if st["k"] == "assign" and st["rv"]["k"] == "agg" and st["rv"].get("path") == adt_path:
                rv = st["rv"]
                out.append((b.idx, st, dict(zip(rv["fields"], rv["ops"])), rv["vname"]))
    return out


def call_sites(facts, pred):
    """All (body, block) whose call resolves (or may resolve, by CHA) to a callee satisfying pred(path)."""
    out = []
    for body in facts.body_list:
        for b in body.calls():
            p = callee_path(b.term)
            if p is not None and pred(p):
                out.append((body, b))
                continue
            if not b.term["callee"].get("resolved"):
                for cb in facts.resolve_call(b.term):
                    if pred(cb.path):
                        out.append((body, b))
                        break
    return out


def return_locals(body):
    """The return place and the locals whose value is moved into it (`_0 = move _n`, as left behind by an inlined helper)."""
    tg = {0}
    changed = True
    while changed:
        changed = False
        for b in body.live_blocks():
            for st in b.stmts:
                if st["k"] == "assign" and not st["place"]["p"] and st["place"]["l"] in tg and st["rv"]["k"] == "use":
                    src = st["rv"]["op"].get("move") or st["rv"]["op"].get("copy")
                    if src and not src["p"] and src["l"] not in tg and src["l"] > body.arg_count:
                        tg.add(src["l"])
                        changed = True
    return tg


def blocks_assigning_return(body, pred):
    """Blocks that assign the return place (directly or through a local moved into it) with an aggregate satisfying pred(rv)."""
    out = []
    tg = return_locals(body)
    for b in body.live_blocks():
        for st in b.stmts:
            if st["k"] == "assign" and st["place"]["l"] in tg and not st["place"]["p"]:
                if pred(st["rv"]):
                    out.append(b.idx)
    return out


# ----------------------------------------------------------------------------- match tables
def discr_switches(body, prov, pred):
    """Switch blocks whose discriminant is discriminant(X) with pred(term of X)."""
    out = []
    for b in body.live_blocks():
        t = b.term
        if t and t["k"] == "switch":
            term = prov.operand(t["discr"])
            if term[0] == "discr" and pred(term[1]):
                out.append((b, term[1]))
    return out


def enum_variants(facts, adt_path):
    t = facts.adts.get(adt_path)
    if t is None:
        for ty in facts.types:
            if ty.get("k") == "adt" and ty.get("path") == adt_path:
                t = ty
                break
    if t is None:
        return None
    return {v["discr"]: v["name"] for v in t["variants"]}


def match_arms(body, sw, variants=None):
    """{label: (target, exclusive region)} for a switch block; label is the variant name (or int) or 'otherwise'."""
    out = {}
    for tg, lb in sw.edges():
        if lb[0] == "case":
            name = variants.get(lb[1], lb[1]) if variants else lb[1]
        else:
            name = "otherwise"
        if body.blocks[tg].term and body.blocks[tg].term["k"] == "unreachable" and not body.blocks[tg].stmts:
            continue
        out[name] = (tg, exclusive_region(body, sw.idx, tg))
    return out


def region_calls(body, region):
    return [body.blocks[bi] for bi in sorted(region) if body.blocks[bi].term and body.blocks[bi].term["k"] == "call"]


def eq_const_edges(body, prov, pred, value):
    """CFG edges on which `term == value` is established for a term satisfying pred: from boolean guards
    comparing the term with the constant, and from integer switches on the term with a case `value`."""
    edges = []
    lines = []
    for g in guards(body, prov):
        ea = eq_atom(g)
        if not ea:
            continue
        for a, b in ((ea[0], ea[1]), (ea[1], ea[0])):
            if b == ("const", value) and pred(a):
                edges.append(ea[2])
                lines.append(g.line)
    for blk in body.live_blocks():
        t = blk.term
        if t and t["k"] == "switch" and body.facts.types[t["dty"]]["k"] == "int":
            term = prov.operand(t["discr"])
            if pred(term):
                for c, tg in t["targets"]:
                    if c == value:
                        edges.append((blk.idx, tg))
                        lines.append(t["line"])
    return edges, lines


def scrutinee_place(body, sw):
    """place_key of the enum value a discriminant switch tests (None when not found)."""
    op = sw.term["discr"]
    pl = op.get("move") or op.get("copy")
    if pl is None or pl["p"]:
        return None
    for blk in [sw] + [b for b in body.live_blocks() if b is not sw]:
        for st in reversed(blk.stmts):
            if st["k"] == "assign" and st["place"]["l"] == pl["l"] and not st["place"]["p"] and st["rv"]["k"] == "discr":
                return place_key(st["rv"]["place"])
    return None


def scrutinee_type(body, sw):
    """Type record of the enum a discriminant switch tests (None when the switch is not on a discriminant)."""
    op = sw.term["discr"]
    pl = op.get("move") or op.get("copy")
    if pl is None or pl["p"]:
        return None
    l = pl["l"]
    # the defining `discriminant(place)` statement: in the block itself, else anywhere (SSA temp)
    cands = []
    for blk in [sw] + [b for b in body.live_blocks() if b is not sw]:
        for st in reversed(blk.stmts):
            if st["k"] == "assign" and st["place"]["l"] == l and not st["place"]["p"]:
                cands.append(st)
        if cands:
            break
    for st in cands:
        if st["rv"]["k"] == "discr":
            t = body.facts.types[st["rv"]["place"]["ty"]]
            while t.get("k") == "ref":
                t = body.facts.types[t["to"]]
            return t
    return None


def variant_edges(body, sw):
    """{variant name: target block} of a discriminant switch, type aware: a variant without a case of its own is served by
    `otherwise` (as in `if let Some(x) = ..`, where None has no case).  None when sw is not an enum switch."""
    t = scrutinee_type(body, sw)
    if t is None or not t.get("variants"):
        return None
    out = {}
    listed = {v: tg for v, tg in sw.term["targets"]}
    ow = sw.term["otherwise"]
    ow_dead = body.blocks[ow].term and body.blocks[ow].term["k"] == "unreachable" and not body.blocks[ow].stmts
    for v in t["variants"]:
        if v["discr"] in listed:
            out[v["name"]] = listed[v["discr"]]
        elif not ow_dead:
            out[v["name"]] = ow
    return out


FAIL_CHAIN = ("::ok", "::branch", "::map_err", "::ok_or", "::ok_or_else")   # failure-preserving adapters: Err/None stay Err/None/Break
FAIL_VARIANTS = ("Err", "None", "Break")


def through_adapters(t):
    while t[0] == "call" and any((t[1] or "").endswith(c) for c in FAIL_CHAIN) and t[2]:
        t = t[2][0]
    return t


def failure_edges(body, prov, pred):
    """For the (dominating) discriminant switches on a value that is `pred` seen through failure-preserving adapters
    (`x?`, x.ok(), x.ok_or(e), x.map_err(f)): [(switch block, scrutinee term, [targets of the Err/None/Break variants])]."""
    from . import cfg
    sws = [(b, through_adapters(t)) for b, t in discr_switches(body, prov, lambda t: pred(through_adapters(t)))]
    dom = cfg.dominators(body)
    out = []
    places = {b.idx: scrutinee_place(body, b) for b, _ in sws}
    for b, t in sws:
        # drop elaboration re-tests the same place inside the arms: the dominating test decides
        if any(o.idx != b.idx and o.idx in dom.get(b.idx, ()) and places[o.idx] == places[b.idx] for o, ot in sws):
            continue
        ve = variant_edges(body, b) or {}
        out.append((b, t, [tg for name, tg in ve.items() if name in FAIL_VARIANTS]))
    return out


def success_value(t):
    """Look through `x?`, `.ok_or(e)?`, `.ok()?`, `.unwrap()`: the term of the value carried by the success variant."""
    for _ in range(8):
        if t[0] == "call" and (t[1] or "").split("::")[-1] in ("unwrap", "expect", "unwrap_unchecked") and t[2]:
            inner = t[2][0]
        elif t[0] == "f" and t[2] == "0" and t[1][0] == "dc" and t[1][2] in ("Continue", "Ok", "Some"):
            inner = t[1][1]
        else:
            return t
        if inner[0] == "call" and (inner[1] or "").endswith("::branch") and inner[2]:
            inner = inner[2][0]
        inner = through_adapters(inner)
        if inner[0] == "phi":
            good = [x for x in inner[1] if x[0] == "agg" and x[2] in ("Ok", "Some", "Continue")]
            if len(good) != 1:
                return t
            inner = good[0]
        if inner[0] == "agg" and inner[2] in ("Ok", "Some", "Continue") and inner[3]:
            t = inner[3][0][1]
            continue
        if inner[0] == "call" and (inner[1] or "").split("::")[-1] in ("get", "get_mut", "first", "last", "split_first", "split_last", "checked_sub", "checked_add"):
            return ("some", inner)
        return t
    return t


def deciding_guards(body, prov, targets, max_chain=8):
    """Boolean guards one of whose edges leads straight (through blocks with a single predecessor and a single successor)
    into one of the `targets` blocks: the conditions that immediately decide those exits.  [(guard, polarity, target)]"""
    targets = set(targets)
    preds = body.preds()
    out = []
    for g in guards(body, prov):
        for edge, pol in ((g.true_edge, True), (g.false_edge, False)):
            cur = edge[1]
            for _ in range(max_chain):
                if cur in targets:
                    out.append((g, pol, cur))
                    break
                blk = body.blocks[cur]
                if len(preds.get(cur, [])) > 1 or not blk.term or blk.term["k"] in ("switch", "return", "unreachable"):
                    break
                nxt = blk.succs()
                if len(nxt) != 1:
                    break
                cur = nxt[0]
    return out
